#!/usr/bin/env python3
# Generates /repo/src/readable/zz_verif_contracts.go: safety-only (nopanic) contracts for the
# API response conversions (C28), from the package's function signatures. A function gets
# "modifies nothing" only if that frame verifies; a function whose safety obligations do not all
# verify is listed in a comment and left without a contract (not claimed).
import re, subprocess, os, sys
env = dict(os.environ, GOFLAGS='-mod=vendor', GOPROXY='off', GOSUMDB='off', GOTOOLCHAIN='local')
sigs = [l.strip() for l in subprocess.run(['go', 'doc', '-all', './src/readable'], cwd='/repo', env=env, capture_output=True, text=True).stdout.splitlines() if l.startswith('func ')]
funcs = {}
for l in sigs:
    m = re.match(r'func (?:\((\w+) (\*?)(\w+)\) )?(\w+)\((.*?)\) ?(.*)$', l)
    if not m:
        continue
    recvn, recvp, recvt, name, params, res = m.groups()
    key = (recvt + '.' if recvt else '') + name
    reqs = [pm.group(1) + ' != nil' for p in (re.split(r',\s*', params) if params else []) for pm in [re.match(r'(\w+) \*', p)] if pm]
    ens = ['r1 == nil ==> r0 != nil'] if re.match(r'\(\*[\w.]+, error\)', res) else []
    funcs[key] = dict(reqs=reqs, ens=ens, frame=True, drop=False)
extra_req = {'NewUnspentOutputsSummary': ['summary.HeadBlock != nil'],
             # package initialisers have run: the base58 alphabet table exists
             'OutputsToUxBalances': ['base58.btcAlphabet != nil'], 'UnspentOutputs.ToUxArray': ['base58.btcAlphabet != nil']}
for k, v in extra_req.items():
    if k in funcs:
        funcs[k]['reqs'] += v
HEADER = '''//go:build verif
// +build verif

package readable

// Contracts for the deductive verifier in /verif (govc): the conversions from node data to API
// response values never panic (C28): no nil dereference, no index out of range, for any
// argument values (pointer arguments non-nil: the handlers pass addresses of values they hold).
// Safety-only contracts generated from the signatures by /verif/gen_readable_contracts.py:
// a function returning (pointer, error) returns a non-nil pointer when the error is nil.
'''
def write():
    out = [HEADER]
    dropped = sorted(k for k, f in funcs.items() if f['drop'])
    if dropped:
        out.append('// not under contract (their safety obligations did not all verify): ' + ', '.join(dropped) + '\n')
    for k in sorted(funcs):
        f = funcs[k]
        if f['drop']:
            continue
        out.append('//@ func ' + k)
        out.append('//@ property C28')
        if f['reqs']:
            out.append('//@ requires ' + ' && '.join(f['reqs']))
        for e in f['ens']:
            out.append('//@ ensures[result] ' + e)
        if f['frame']:
            out.append('//@ modifies nothing')
        out.append('//@ nopanic')
        out.append('')
    open('/repo/src/readable/zz_verif_contracts.go', 'w').write('\n'.join(out))
def run():
    e = dict(os.environ, GOFLAGS='-mod=mod', GOPROXY='off', GOSUMDB='off', GOTOOLCHAIN='local')
    r = subprocess.run(['/verif/bin/govc', 'verify', '-v', 'readable.'], capture_output=True, text=True, env=e).stdout
    bad = {}
    for l in r.splitlines():
        m = re.match(r'\s+readable\.([\w.]+)#(\S+)\s+(sat|timeout|unknown|error)\s', l)
        if m and not m.group(2).startswith('cover:'):
            bad.setdefault(m.group(1), []).append(m.group(2))
        m = re.match(r'readable\.([\w.]+): ERROR', l)
        if m:
            bad.setdefault(m.group(1), []).append('ERROR')
    return bad
for it in range(6):
    write()
    bad = run()
    print('round', it, {k: len(v) for k, v in bad.items()})
    if not bad:
        break
    for k, kinds in bad.items():
        if k not in funcs:
            continue
        f = funcs[k]
        if f['frame'] and all(x.startswith('frame') for x in kinds):
            f['frame'] = False
        elif f['frame'] and any(x.startswith('frame') for x in kinds):
            f['frame'] = False
        else:
            f['drop'] = True
write()
print('kept', sorted(k for k, f in funcs.items() if not f['drop']))
print('dropped', sorted(k for k, f in funcs.items() if f['drop']))
