#!/bin/bash
# usage: ./check.sh <property-id> [quick|thorough]
# exit 0: every obligation discharged (known findings printed as KNOWN-FINDING lines)
# exit 1: VIOLATION property=<id> replay=<path> ...
# exit 2: UNDECIDED (contract no longer binds, generator limit) - never on the unchanged tree
cd "$(dirname "$0")"
export GOFLAGS=-mod=mod GOPROXY=off GOSUMDB=off GOTOOLCHAIN=local
if [ ! -x bin/govc ] || [ -n "$(find govc -name '*.go' -newer bin/govc 2>/dev/null | head -1)" ]; then
  ./setup.sh >/dev/null || exit 2
fi
exec bin/govc check "$1" --tier "${2:-${VERIF_TIER:-quick}}"
