#!/usr/bin/env python3
# Regenerates the coverage table (11.2) and the seed table (11.6) of DESIGN.md from
# evidence/*.json and seeded/*/meta.json.
import json, glob, re
rows = []
for f in sorted(glob.glob('/verif/evidence/*.json')):
    d = json.load(open(f)); c = d['coverage']
    fu = c.get('functions_under_contract') or []
    rows.append((d['property_id'], len(fu), c['obligations'], c['discharged'], len(c.get('known_findings') or [])))
ev = "| property | functions in cone | obligations | discharged | known findings |\n|---|---|---|---|---|\n" + "\n".join("| %s | %d | %d | %d | %d |" % r for r in rows)
sd = "| seed | property | detected | obligation that fails |\n|---|---|---|---|\n"
tot = det = 0
for d in sorted(glob.glob('/verif/seeded/*/meta.json')):
    m = json.load(open(d)); name = d.split('/')[-2]
    ob = ''
    for l in m.get('check_output', []):
        if 'obligation=' in l:
            ob = l.split('obligation=')[1].split()[0]; break
    st = 'yes' if m['detected_by_check'] else 'no'
    if 'superseded' in m:
        st = 'superseded'
    else:
        tot += 1; det += (st == 'yes')
    sd += "| %s | %s | %s | %s |\n" % (name, m['property'], st, ob)
sd += "\n%d of %d confirmed seeded changes are detected.\n" % (det, tot)
s = open('/verif/DESIGN.md').read()
s = re.sub(r'\| property \| functions in cone \|.*?\n\n', ev + "\n\n", s, count=1, flags=re.S)
s = re.sub(r'\| seed \| property \| detected \|.*?\n\n(\d+ of \d+ confirmed seeded changes are detected\.\n\n)?', sd + "\n", s, count=1, flags=re.S)
open('/verif/DESIGN.md', 'w').write(s)
print(det, 'of', tot)
