#!/bin/bash
# Runs every claimed check (quick tier by default) on the current /repo tree; refreshes evidence.
cd "$(dirname "$0")"
tier=${1:-quick}
ids=$(python3 -c "import json;print(' '.join(c['property_id'] for c in json.load(open('MANIFEST.json'))['checks']))")
mkdir -p .logs
# the thorough tier runs without cache and with long timeouts: fewer checks side by side
par=4; [ "$tier" = thorough ] && par=2
echo $ids | tr ' ' '\n' | xargs -P $par -I{} sh -c "./check.sh {} $tier > .logs/{}.log 2>&1; echo \"{} exit=\$? \$(tail -1 .logs/{}.log | cut -c1-200)\""
