package visor

// Demonstration of known finding D3 (property C04). Run in-package with:
//   cd /repo/src/visor && echo '{"Replace":{"/repo/src/visor/zz_d3_test.go":"/verif/findings/d3_prevhash_test.go"}}' > /tmp/ov.json \
//     && go test -overlay /tmp/ov.json -vet=off -count=1 -run TestD3 .
// The publisher signs a block whose PrevHash does NOT name the current head. ExecuteBlock
// overwrites sb.Head.PrevHash with the head's hash before verification, so the block is accepted
// and what gets stored is a header the publisher never signed: the stored block fails its own
// signature check.

import (
	"testing"

	"github.com/stretchr/testify/require"

	"github.com/skycoin/skycoin/src/cipher"
	"github.com/skycoin/skycoin/src/coin"
	"github.com/skycoin/skycoin/src/testutil"
	"github.com/skycoin/skycoin/src/visor/dbutil"
)

func TestD3StoredHeaderIsNotTheSignedHeader(t *testing.T) {
	db, closeDB := prepareDB(t)
	defer closeDB()
	require.NoError(t, CreateBuckets(db))

	bc := MakeBlockchain(t, db, GenesisSecret)
	toAddr := testutil.MakeAddress()
	txn := CreateGenesisSpendTransaction(t, db, bc, toAddr, GenesisCoins, GenesisCoinHours, GenesisCoinHours/2)

	var block *coin.Block
	require.NoError(t, db.View("", func(tx *dbutil.Tx) error {
		var err error
		block, err = bc.NewBlock(tx, coin.Transactions{txn}, GenesisTime+TimeIncrement)
		return err
	}))

	// the block names a wrong parent, and the publisher signs exactly that header
	block.Head.PrevHash = cipher.SumSHA256([]byte("not the head"))
	signed := coin.SignedBlock{Block: *block, Sig: cipher.MustSignHash(block.HashHeader(), GenesisSecret)}
	pubkey := cipher.MustPubKeyFromSecKey(GenesisSecret)
	require.NoError(t, signed.VerifySignature(pubkey))

	offered := signed
	err := db.Update("", func(tx *dbutil.Tx) error { return bc.ExecuteBlock(tx, &offered) })
	// property C04: a block that does not name the head as its parent must be refused ...
	if err == nil {
		var stored *coin.SignedBlock
		require.NoError(t, db.View("", func(tx *dbutil.Tx) error {
			var e error
			stored, e = bc.GetSignedBlockBySeq(tx, 1)
			return e
		}))
		require.NotNil(t, stored)
		// ... and in any case the stored header must be the header that was signed
		if stored.Head.PrevHash != signed.Head.PrevHash || stored.VerifySignature(pubkey) != nil {
			t.Fatalf("D3: block with wrong PrevHash accepted; stored PrevHash=%s signed PrevHash=%s; stored block signature check: %v",
				stored.Head.PrevHash.Hex(), signed.Head.PrevHash.Hex(), stored.VerifySignature(pubkey))
		}
	}
}
