package api

// Demonstration of finding D9 (property C27): basicAuth compares SHA256(user || pass) with
// SHA256(username || password), so a request whose user name and password are a different split
// of the same concatenation is accepted: it does not present exactly the configured user name
// and password.
//
// Run (from /repo): copy into src/api/ and
//   go test -vet=off -count=1 -run TestFindingD9 ./src/api/

import (
	"net/http"
	"net/http/httptest"
	"testing"

	"github.com/stretchr/testify/require"
)

func TestFindingD9(t *testing.T) {
	reached := false
	h := basicAuth(apiVersion1, "ab", "c", "realm", http.HandlerFunc(func(w http.ResponseWriter, r *http.Request) {
		reached = true
	}))

	// the configured credentials are accepted
	req := httptest.NewRequest(http.MethodGet, "/api/v1/version", nil)
	req.SetBasicAuth("ab", "c")
	rr := httptest.NewRecorder()
	h.ServeHTTP(rr, req)
	require.True(t, reached)
	require.Equal(t, http.StatusOK, rr.Code)

	// a different user name / password pair with the same concatenation must be refused
	reached = false
	req = httptest.NewRequest(http.MethodGet, "/api/v1/version", nil)
	req.SetBasicAuth("a", "bc")
	rr = httptest.NewRecorder()
	h.ServeHTTP(rr, req)
	require.False(t, reached, "user=a password=bc reached the endpoint although user=ab password=c is configured")
	require.Equal(t, http.StatusUnauthorized, rr.Code)
}
