package api

// Demonstration of finding D10 (property C27): the documentation of GET /api/v1/csrf says
// "Previous CSRF tokens are invalidated by this call", but tokens are stateless (HMAC over a
// nonce and an expiry time), so every token issued earlier stays valid until it expires.
//
// Run (from /repo): copy into src/api/ and
//   go test -vet=off -count=1 -run TestFindingD10 ./src/api/

import (
	"testing"

	"github.com/stretchr/testify/require"
)

func TestFindingD10(t *testing.T) {
	first, err := newCSRFToken()
	require.NoError(t, err)
	require.NoError(t, verifyCSRFToken(first))

	second, err := newCSRFToken()
	require.NoError(t, err)
	require.NotEqual(t, first, second)
	require.NoError(t, verifyCSRFToken(second))

	// documented: requesting a new token invalidates earlier ones
	require.Error(t, verifyCSRFToken(first), "the first token is still accepted after a second one was issued")
}
