package visor

// Demonstration of finding D7 (property C28): Visor.VerifyTxnVerbose dereferences a nil
// *historydb.Transaction when a transaction's inputs are no longer unspent but are known to the
// history database, and the transaction itself is not in the history database (for example a
// second spend of outputs that another transaction already spent). historydb's GetTransaction
// returns (nil, nil) for an unknown hash.
//
// Run (from /repo): copy into src/visor/ and
//   go test -vet=off -count=1 -run TestFindingD7 ./src/visor/

import (
	"testing"

	"github.com/stretchr/testify/mock"
	"github.com/stretchr/testify/require"

	"github.com/skycoin/skycoin/src/cipher"
	"github.com/skycoin/skycoin/src/coin"
	"github.com/skycoin/skycoin/src/testutil"
	"github.com/skycoin/skycoin/src/transaction"
	"github.com/skycoin/skycoin/src/visor/blockdb"
	"github.com/skycoin/skycoin/src/visor/dbutil"
	"github.com/skycoin/skycoin/src/visor/historydb"
)

func TestFindingD7(t *testing.T) {
	db, shutdown := testutil.PrepareDB(t)
	defer shutdown()

	head := coin.SignedBlock{Block: coin.Block{Head: coin.BlockHeader{Time: 1000}}}
	in := testutil.RandSHA256(t)
	txn := coin.Transaction{In: []cipher.SHA256{in}, Sigs: make([]cipher.Sig, 1),
		Out: []coin.TransactionOutput{{Address: testutil.MakeAddress(), Coins: 1e6, Hours: 1}}}

	matchDBTx := mock.MatchedBy(func(tx *dbutil.Tx) bool { return true })
	history := &MockHistoryer{}
	bc := &MockBlockchainer{}
	unspent := &MockUnspentPooler{}
	bc.On("Unspent").Return(unspent)
	bc.On("Head", matchDBTx).Return(&head, nil)
	// the input was spent already ...
	unspent.On("GetArray", matchDBTx, txn.In).Return(nil, blockdb.NewErrUnspentNotExist(in.Hex()))
	// ... the history database knows the spent output ...
	history.On("GetUxOuts", matchDBTx, txn.In).Return([]historydb.UxOut{{Out: coin.UxOut{Body: coin.UxBody{Coins: 1e6, Hours: 10}}}}, nil)
	// ... but not this transaction
	history.On("GetTransaction", matchDBTx, txn.Hash()).Return(nil, nil)

	v := &Visor{blockchain: bc, db: db, history: history, Config: Config{}}
	require.NotPanics(t, func() {
		_, _, err := v.VerifyTxnVerbose(&txn, transaction.TxnUnsigned)
		t.Logf("verdict: %v", err)
	})
}
