#!/usr/bin/env python3
"""Regenerates MANIFEST.json from manifest_src.json (claimed checks) and properties.jsonl."""
import json, subprocess
src = json.load(open('/verif/manifest_src.json'))
props = [json.loads(l)['id'] for l in open('/verif/properties.jsonl')]
hooks = subprocess.run(['git','-C','/repo','log','--format=%H %s'],capture_output=True,text=True).stdout.splitlines()
hook_commits = [l.split()[0] for l in hooks if ' verif hook:' in l or ' verif: ' in l]
checks = []
for pid in props:
    c = src['checks'].get(pid)
    if not c: continue
    checks.append({
        "property_id": pid,
        "quick_cmd": f"./check.sh {pid} quick",
        "thorough_cmd": f"./check.sh {pid} thorough",
        "evidence_file": f"/verif/evidence/{pid}.json",
        "replay_cmd_template": "cat {path}",
        "engine": "govc",
        "level_claimed": {"category": "proof", "text": c['text'], "design_ref": c.get('design_ref', 'DESIGN.md section 6')},
        "level_note": c['note'],
        "technique": c.get('technique', "contract-based deductive verification: weakest-precondition VCs generated from go/ssa of the real functions, contracts in //@ comments, discharged by z3/cvc5"),
    })
na = []
for pid in props:
    if pid in src['checks']: continue
    na.append({"property_id": pid, "reason": src['not_applicable'][pid]})
m = {
 "version": 1,
 "setup_cmd": "./setup.sh",
 "hooks": {"guard": "verif", "enable": "contracts are files src/**/zz_verif_contracts*.go with //go:build verif, comment-only except src/visor/blockdb/zz_verif_contracts_pool.go, which also declares one never-used package variable (ghostUnspentPool: the unspent bucket as a map, for contracts); govc loads /repo with -tags=verif",
           "baseline_off_cmd": "cd /repo && go test -vet=off -count=1 -timeout 25m ./...",
           "source_commits": hook_commits, "add_only": True},
 "engines": [{"name": "govc", "path": "/verif/govc", "serves_properties": [c['property_id'] for c in checks],
              "kind_free_text": "deductive verifier for Go written for this task: symbolic execution of go/ssa with loop invariants and modular call contracts, SMT-LIB obligations, solver race"}],
 "checks": checks,
 "not_applicable": na,
 "notes": src.get('notes', ''),
}
json.dump(m, open('/verif/MANIFEST.json','w'), indent=1)
print(len(checks), 'checks;', len(na), 'not applicable')
