package main

import (
	"fmt"
	"go/constant"
	"go/types"
	"math/big"
	"os"
	"sort"
	"strings"

	"golang.org/x/tools/go/ssa"
)

type SpecEnv struct {
	fr       *Frame
	vars     map[string]*SVal
	heap     *HeapState
	old      *HeapState
	pkg      *ssa.Package
	contract *Contract
	lemma    *Lemma
	header   *ssa.BasicBlock
	depth    int
	specPkg  string
	sumCtx   *sumCtx
	sumDepth int
	inHint   bool
	freshUnknown bool
	at       *ssa.BasicBlock // resolve source variables as visible at the end of this block
}

func (fr *Frame) newEnv() *SpecEnv {
	return &SpecEnv{fr: fr, vars: map[string]*SVal{}, heap: fr.cur, old: fr.entry, pkg: fr.fn.Pkg}
}

func (e *SpecEnv) with(name string, v *SVal) *SpecEnv {
	n := *e
	n.vars = map[string]*SVal{}
	for k, x := range e.vars {
		n.vars[k] = x
	}
	n.vars[name] = v
	return &n
}

type specFail struct{ msg string }

func sfail(f string, a ...interface{}) { panic(specFail{fmt.Sprintf(f, a...)}) }

// lvalue marker: SVal with LV set denotes the (unread) contents of Loc.
func lv(loc *Loc) *SVal { return &SVal{T: loc.T, Loc: loc, LV: true} }

func (e *SpecEnv) force(v *SVal) *SVal {
	if v.LV {
		r := e.fr.readLocIn(e.heap, v.Loc)
		r.T = v.T
		// memory holds values of the declared types: ground reads get their type range
		for _, l := range r.flat() {
			if l.Term != "" && kindOf(l.T) == KInt && !hasBound(l.Term) {
				e.fr.x.assumeRange(l.Term, l.T)
			}
		}
		// ... and an allocated object holds no references to objects not yet allocated
		if b := v.Loc.Base; b != "" && (v.Loc.Kind == LRef || v.Loc.Kind == LElem) && !hasBound(b) {
			al := e.fr.x.heapGet(e.heap, allocName, "Int")
			for _, t := range refTerms(r) {
				if !hasBound(t) {
					e.fr.x.em.Assert(sImp(sLe(b, al), sLe(t, al)))
				}
			}
		}
		if e.sumCtx != nil {
			r = e.sumCtx.lift(e, r)
		}
		return r
	}
	return v
}

func (fr *Frame) evalBool(n *Node, env *SpecEnv) string {
	v := env.force(env.eval(n))
	if kindOf(v.T) != KBool {
		sfail("expected boolean: %s", n)
	}
	return v.Term
}

func boolVal(t string) *SVal { return leaf(types.Typ[types.Bool], t) }
func intVal(t string) *SVal  { return leaf(specIntType, t) }

func (e *SpecEnv) eval(n *Node) *SVal {
	v := e.eval0(n)
	if e.sumCtx != nil && n.Op != "int" {
		v = e.sumCtx.lift(e, v)
	}
	return v
}

func (e *SpecEnv) eval0(n *Node) *SVal {
	switch n.Op {
	case "int":
		v, ok := new(big.Int).SetString(n.Name, 0)
		if !ok {
			sfail("bad integer %s", n.Name)
		}
		return intVal(sBig(v))
	case "str":
		return leaf(types.Typ[types.String], e.fr.x.strLit(n.Name))
	case "id":
		return e.ident(n.Name)
	case ".":
		if n.Args[0].Op == "id" {
			if _, ok := e.vars[n.Args[0].Name]; !ok {
				if p := e.importedPkg(n.Args[0].Name); p != nil {
					return e.pkgMember(p, n.Name)
				}
			}
		}
		return e.field(e.eval(n.Args[0]), n.Name)
	case "[]":
		return e.index(e.eval(n.Args[0]), e.force(e.eval(n.Args[1])))
	case "[:]":
		return e.sliceExpr(n)
	case "call":
		return e.callExpr(n)
	case "!":
		return boolVal(sNot(e.fr.evalBool(n.Args[0], e)))
	case "neg":
		return intVal("(- " + e.intTerm(n.Args[0]) + ")")
	case "&&":
		return boolVal(sAnd(e.fr.evalBool(n.Args[0], e), e.fr.evalBool(n.Args[1], e)))
	case "||":
		return boolVal(sOr(e.fr.evalBool(n.Args[0], e), e.fr.evalBool(n.Args[1], e)))
	case "==>":
		return boolVal(sImp(e.fr.evalBool(n.Args[0], e), e.fr.evalBool(n.Args[1], e)))
	case "<==>":
		return boolVal(sEq(e.fr.evalBool(n.Args[0], e), e.fr.evalBool(n.Args[1], e)))
	case "==", "!=":
		a := e.force(e.eval(n.Args[0]))
		b := e.force(e.eval(n.Args[1]))
		t := e.equal(a, b)
		if n.Op == "!=" {
			t = sNot(t)
		}
		return boolVal(t)
	case "<", "<=", ">", ">=":
		a, b := e.intTerm(n.Args[0]), e.intTerm(n.Args[1])
		switch n.Op {
		case "<":
			return boolVal(sLt(a, b))
		case "<=":
			return boolVal(sLe(a, b))
		case ">":
			return boolVal(sLt(b, a))
		default:
			return boolVal(sLe(b, a))
		}
	case "+", "-", "*", "/", "%":
		a, b := e.intTerm(n.Args[0]), e.intTerm(n.Args[1])
		ca, oka := isIntLit(a)
		cb, okb := isIntLit(b)
		if oka && okb {
			r := new(big.Int)
			switch n.Op {
			case "+":
				return intVal(sBig(r.Add(ca, cb)))
			case "-":
				return intVal(sBig(r.Sub(ca, cb)))
			case "*":
				return intVal(sBig(r.Mul(ca, cb)))
			}
		}
		switch n.Op {
		case "+":
			return intVal(sAdd(a, b))
		case "-":
			return intVal(sSub(a, b))
		case "*":
			return intVal("(* " + a + " " + b + ")")
		case "/":
			return intVal("(div " + a + " " + b + ")")
		default:
			return intVal("(mod " + a + " " + b + ")")
		}
	case "<<":
		a, b := e.intTerm(n.Args[0]), e.intTerm(n.Args[1])
		cb, ok := isIntLit(b)
		if !ok {
			sfail("shift by non-constant in spec")
		}
		if ca, ok := isIntLit(a); ok {
			return intVal(sBig(new(big.Int).Lsh(ca, uint(cb.Int64()))))
		}
		return intVal("(* " + a + " " + pow2(int(cb.Int64())).String() + ")")
	case ">>":
		a, b := e.intTerm(n.Args[0]), e.intTerm(n.Args[1])
		cb, ok := isIntLit(b)
		if !ok {
			sfail("shift by non-constant in spec")
		}
		return intVal("(div " + a + " " + pow2(int(cb.Int64())).String() + ")")
	}
	sfail("cannot evaluate %s (op %s)", n, n.Op)
	return nil
}

func (e *SpecEnv) intTerm(n *Node) string {
	v := e.force(e.eval(n))
	k := kindOf(v.T)
	if k != KInt && k != KSpecInt && k != KPtr && k != KMap && k != KIface {
		sfail("expected integer: %s has type %s", n, v.T)
	}
	if v.Term == "" {
		sfail("no term for %s", n)
	}
	return v.Term
}

func (e *SpecEnv) equal(a, b *SVal) string {
	// nil literal adapts to the other side
	if a.isNilLit() && !b.isNilLit() {
		a, b = b, a
	}
	if b.isNilLit() {
		switch kindOf(a.T) {
		case KSlice:
			return sEq(a.F[0].Term, "0")
		case KPtr:
			if a.Loc != nil {
				return "false"
			}
			return sEq(a.Term, "0")
		case KMap, KIface, KFunc, KChan, KSpecInt:
			// (KSpecInt: an arbitrary stand-in value inside a `check` clause)
			return sEq(a.Term, "0")
		}
		sfail("comparison of %s with nil", a.T)
	}
	if a.F != nil || b.F != nil {
		if len(a.F) != len(b.F) {
			sfail("== on values of different shape (%s vs %s)", a.T, b.T)
		}
		var cs []string
		for i := range a.F {
			cs = append(cs, e.equal(a.F[i], b.F[i]))
		}
		return sAnd(cs...)
	}
	ta, tb := a.Term, b.Term
	if a.Loc != nil && !a.LV && a.Loc.Kind == LRef && len(a.Loc.Path) == 0 {
		ta = a.Loc.Base
	}
	if b.Loc != nil && !b.LV && b.Loc.Kind == LRef && len(b.Loc.Path) == 0 {
		tb = b.Loc.Base
	}
	if ta == "" || tb == "" {
		sfail("== on values without terms")
	}
	return sEq(ta, tb)
}

func (v *SVal) isNilLit() bool {
	b, ok := v.T.(*types.Basic)
	return ok && b.Kind() == types.UntypedNil
}

func (e *SpecEnv) ident(name string) *SVal {
	if v, ok := e.vars[name]; ok {
		return v
	}
	switch name {
	case "true":
		return boolVal("true")
	case "false":
		return boolVal("false")
	case "nil":
		return leaf(types.Typ[types.UntypedNil], "0")
	}
	fr := e.fr
	if e.header != nil {
		// loop-carried variables by source name
		for _, in := range e.header.Instrs {
			phi, ok := in.(*ssa.Phi)
			if !ok {
				break
			}
			if phi.Comment == name {
				return fr.vals[phi]
			}
		}
	}
	if v, ok := fr.params[name]; ok {
		return v
	}
	if e.header != nil {
		if v := fr.lookupDebug(name, e.header, false); v != nil {
			return v
		}
	}
	if e.at != nil {
		if v := fr.lookupDebug(name, e.at, true); v != nil {
			return v
		}
	}
	if e.pkg != nil {
		if v := e.pkgMemberOpt(e.pkg.Pkg, name); v != nil {
			return v
		}
	}
	if e.freshUnknown {
		// a local that does not exist (yet) at this return: an arbitrary value
		return intVal(e.fr.x.em.Fresh("undef."+name, "Int"))
	}
	sfail("unknown identifier %q", name)
	return nil
}

// lookupDebug finds the value of source variable `name` visible at block b: the latest
// DebugRef in b's dominators.
func (fr *Frame) lookupDebug(name string, b *ssa.BasicBlock, inclusive bool) *SVal {
	for d := b; d != nil; d = d.Idom() {
		refs := fr.debug[d]
		for k := len(refs) - 1; k >= 0; k-- {
			r := refs[k]
			if d == b && !inclusive {
				// only phis of the header itself are visible at the cut point
				continue
			}
			obj := r.Object()
			if os.Getenv("GOVC_DEBUG") == "2" {
				fmt.Fprintf(os.Stderr, "  debugref in b%d: %v obj=%v\n", d.Index, r, obj)
			}
			if obj == nil || obj.Name() != name {
				continue
			}
			if _, isVar := obj.(*types.Var); !isVar {
				continue
			}
			v, ok := fr.vals[r.X]
			if !ok {
				if _, isC := r.X.(*ssa.Const); isC {
					v = fr.val(r.X)
				} else {
					continue
				}
			}
			if r.IsAddr {
				loc := fr.ptrLoc(v, false)
				return lv(loc)
			}
			return v
		}
		// a merge of several assignments to the variable: the phi carries the variable's name
		// (without this an older DebugRef in a dominator further up - a stale value - would be
		// taken for the variable)
		for _, in := range d.Instrs {
			phi, ok := in.(*ssa.Phi)
			if !ok {
				break
			}
			if phi.Comment == name {
				if v, ok := fr.vals[phi]; ok {
					return v
				}
			}
		}
	}
	return nil
}

func (e *SpecEnv) importedPkg(name string) *types.Package {
	if e.pkg == nil {
		return nil
	}
	for _, p := range e.pkg.Pkg.Imports() {
		if p.Name() == name {
			return p
		}
	}
	// fall back: any loaded package with that name
	for _, p := range e.fr.x.w.prog.AllPackages() {
		if p.Pkg.Name() == name && strings.Contains(p.Pkg.Path(), "skycoin") {
			return p.Pkg
		}
	}
	return nil
}

func (e *SpecEnv) pkgMember(p *types.Package, name string) *SVal {
	v := e.pkgMemberOpt(p, name)
	if v == nil {
		sfail("no member %s in package %s", name, p.Path())
	}
	return v
}

func (e *SpecEnv) pkgMemberOpt(p *types.Package, name string) *SVal {
	obj := p.Scope().Lookup(name)
	if obj == nil {
		return nil
	}
	switch o := obj.(type) {
	case *types.Const:
		switch o.Val().Kind() {
		case constant.Int:
			v, _ := new(big.Int).SetString(o.Val().ExactString(), 10)
			t := o.Type()
			if kindOf(t) == KSpecInt {
				t = specIntType
			}
			return leaf(t, sBig(v))
		case constant.Bool:
			if constant.BoolVal(o.Val()) {
				return boolVal("true")
			}
			return boolVal("false")
		case constant.String:
			return leaf(types.Typ[types.String], e.fr.x.strLit(constant.StringVal(o.Val())))
		}
	case *types.Var:
		sp := e.fr.x.w.prog.Package(p)
		if sp == nil {
			return nil
		}
		g, ok := sp.Members[name].(*ssa.Global)
		if !ok {
			return nil
		}
		if sv := e.fr.loadGlobal(g); sv != nil {
			return sv
		}
		return lv(e.fr.globalLoc(g))
	}
	return nil
}

func (e *SpecEnv) field(v *SVal, name string) *SVal {
	// auto-deref pointers
	if !v.LV && kindOf(v.T) == KPtr {
		loc := v.Loc
		if loc == nil {
			pt, ok := v.T.Underlying().(*types.Pointer)
			if !ok {
				sfail("field %s of %s", name, v.T)
			}
			loc = &Loc{Kind: LRef, Base: v.Term, Root: pt.Elem(), T: pt.Elem()}
		}
		v = lv(loc)
	}
	if v.LV && kindOf(v.T) == KPtr {
		p := e.force(v)
		return e.field(p, name)
	}
	st, ok := v.T.Underlying().(*types.Struct)
	if !ok {
		sfail("field %s of non-struct %s", name, v.T)
	}
	for i := 0; i < st.NumFields(); i++ {
		f := st.Field(i)
		if f.Name() == name {
			if v.LV {
				return lv(v.Loc.extend(PStep{Field: name}, f.Type()))
			}
			r := v.F[i]
			if r.T == nil {
				r.T = f.Type()
			}
			return r
		}
	}
	// embedded fields
	for i := 0; i < st.NumFields(); i++ {
		f := st.Field(i)
		if f.Embedded() {
			var inner *SVal
			if v.LV {
				inner = lv(v.Loc.extend(PStep{Field: f.Name()}, f.Type()))
			} else {
				inner = v.F[i]
			}
			if hasField(f.Type(), name) {
				return e.field(inner, name)
			}
		}
	}
	sfail("no field %s in %s", name, v.T)
	return nil
}

func hasField(t types.Type, name string) bool {
	if p, ok := t.Underlying().(*types.Pointer); ok {
		t = p.Elem()
	}
	st, ok := t.Underlying().(*types.Struct)
	if !ok {
		return false
	}
	for i := 0; i < st.NumFields(); i++ {
		if st.Field(i).Name() == name || st.Field(i).Embedded() && hasField(st.Field(i).Type(), name) {
			return true
		}
	}
	return false
}

func (e *SpecEnv) index(v *SVal, idx *SVal) *SVal {
	fr := e.fr
	switch kindOf(v.T) {
	case KSlice:
		s := e.force(v)
		et := elemType(s.T)
		arr, off := s.F[0].Term, s.F[1].Term
		if c := e.sumCtx; c != nil && strings.Contains(idx.Term, c.ph) {
			// lambda-lift the slice out of the sum body (see sum.go)
			// (a slice reached through an already lifted pointer is re-lifted at the slice
			// itself, so that the same spec sum over a value and over a pointer coincide)
			if !strings.Contains(arr, c.ph) {
				arr = c.param(c.unlift(arr))
			}
			if _, lit := isIntLit(off); !lit && !strings.Contains(off, c.ph) {
				off = c.param(c.unlift(off))
			}
		}
		return lv(&Loc{Kind: LElem, Base: arr, Idx: sAdd(off, idx.Term), Root: et, T: et})
	case KArray:
		a := v.T.Underlying().(*types.Array)
		if v.LV {
			return lv(v.Loc.extend(PStep{Idx: idx.Term}, a.Elem()))
		}
		return leaf(a.Elem(), sSelect(v.Term, idx.Term))
	case KMap:
		m := e.force(v)
		val, _ := fr.mapLookupIn(e.heap, m, e.keyTerm(idx))
		fr.mapValuesAllocated(e.heap, m)
		return val
	case KStr:
		s := e.force(v)
		f := fr.x.em.Func("strat", []string{"Str", "Int"}, "Int")
		return leaf(types.Typ[types.Uint8], sApp(f, s.Term, idx.Term))
	case KPtr:
		// pointer to array
		p := e.force(v)
		if pt, ok := p.T.Underlying().(*types.Pointer); ok {
			if a, ok := pt.Elem().Underlying().(*types.Array); ok {
				loc := p.Loc
				if loc == nil {
					loc = &Loc{Kind: LRef, Base: p.Term, Root: pt.Elem(), T: pt.Elem()}
				}
				return lv(loc.extend(PStep{Idx: idx.Term}, a.Elem()))
			}
		}
	}
	sfail("cannot index %s", v.T)
	return nil
}

func (e *SpecEnv) keyTerm(k *SVal) string {
	if k.Term == "" && isLeaf(k.T) {
		sfail("map key without term")
	}
	return e.fr.keyTerm(k)
}

func (e *SpecEnv) sliceExpr(n *Node) *SVal {
	v := e.force(e.eval(n.Args[0]))
	if kindOf(v.T) != KSlice {
		sfail("slice expression on %s", v.T)
	}
	lo, hi := "0", v.F[2].Term
	if n.Args[1] != nil {
		lo = e.intTerm(n.Args[1])
	}
	if n.Args[2] != nil {
		hi = e.intTerm(n.Args[2])
	}
	return &SVal{T: v.T, F: []*SVal{v.F[0], leaf(intType, sAdd(v.F[1].Term, lo)), leaf(intType, sSub(hi, lo)), leaf(intType, sSub(v.F[3].Term, lo))}}
}

func (e *SpecEnv) findSpec(name string) *SpecFn {
	if e.contract != nil {
		if s := e.contract.Specs[name]; s != nil {
			return s
		}
	}
	if e.lemma != nil {
		if s := e.lemma.Specs[name]; s != nil {
			return s
		}
	}
	w := e.fr.x.w
	if e.specPkg != "" {
		if s := w.cs.pkgSpecs[e.specPkg][name]; s != nil {
			return s
		}
	}
	if e.contract != nil {
		if s := w.cs.pkgSpecs[e.contract.Pkg][name]; s != nil {
			return s
		}
	}
	if e.lemma != nil {
		if s := w.cs.pkgSpecs[e.lemma.Pkg][name]; s != nil {
			return s
		}
	}
	if e.pkg != nil {
		if s := w.cs.pkgSpecs[shortPkg(e.pkg.Pkg.Path())][name]; s != nil {
			return s
		}
	}
	return nil
}

func (e *SpecEnv) callExpr(n *Node) *SVal {
	fr := e.fr
	x := fr.x
	fnNode := n.Args[0]
	args := n.Args[1:]
	if fnNode.Op == "." && fnNode.Args[0].Op == "id" {
		// pkg.Func(...) : pure function of another package, or a package-level spec
		if _, ok := e.vars[fnNode.Args[0].Name]; !ok {
			if p := e.importedPkg(fnNode.Args[0].Name); p != nil {
				if s := x.w.cs.pkgSpecs[shortPkg(p.Path())][fnNode.Name]; s != nil {
					return e.applySpec(s, args)
				}
				return e.pureCall(shortPkg(p.Path())+"."+fnNode.Name, p, fnNode.Name, nil, args)
			}
		}
		// method call on a value: recv.Method(args) for pure methods
		recv := e.eval(fnNode.Args[0])
		return e.pureMethod(recv, fnNode.Name, args)
	}
	if fnNode.Op == "." {
		recv := e.eval(fnNode.Args[0])
		return e.pureMethod(recv, fnNode.Name, args)
	}
	if fnNode.Op != "id" {
		sfail("cannot call %s", fnNode)
	}
	name := fnNode.Name
	need := func(k int) {
		if len(args) != k {
			sfail("%s expects %d arguments", name, k)
		}
	}
	switch name {
	case "old":
		need(1)
		n2 := *e
		n2.heap = e.old
		v := n2.eval(args[0])
		return n2.force(v)
	case "len":
		need(1)
		v := e.eval(args[0])
		switch kindOf(v.T) {
		case KSlice:
			return intVal(e.force(v).F[2].Term)
		case KStr:
			x.declStrEmpty()
			return intVal("(strlen " + e.force(v).Term + ")")
		case KArray:
			return intVal(sInt(v.T.Underlying().(*types.Array).Len()))
		case KMap:
			m := e.force(v)
			ml := fr.mapLen(e.heap, m)
			if !hasBound(ml) {
				// the length of a map is the cardinality of its domain: never negative
				x.em.Assert(sLe("0", ml))
			}
			return intVal(sIte(sEq(m.Term, "0"), "0", ml))
		}
		sfail("len of %s", v.T)
	case "cap":
		need(1)
		v := e.force(e.eval(args[0]))
		if kindOf(v.T) == KSlice {
			return intVal(v.F[3].Term)
		}
		sfail("cap of %s", v.T)
	case "arr", "off":
		need(1)
		v := e.force(e.eval(args[0]))
		if kindOf(v.T) != KSlice {
			sfail("%s of non-slice", name)
		}
		if name == "arr" {
			return intVal(v.F[0].Term)
		}
		return intVal(v.F[1].Term)
	case "forall", "exists":
		return e.quant(name, args)
	case "forallstr", "existsstr":
		// quantification over strings: forallstr(s, body)
		if len(args) != 2 || args[0].Op != "id" {
			sfail("%s(s, body)", name)
		}
		x.nFrames++
		bv := sym(fmt.Sprintf("%s!q%d", args[0].Name, x.nFrames))
		b := fr.evalBool(args[1], e.with(args[0].Name, leaf(types.Typ[types.String], bv)))
		if name == "forallstr" {
			return boolVal("(forall ((" + bv + " Str)) " + b + ")")
		}
		return boolVal("(exists ((" + bv + " Str)) " + b + ")")
	case "forallkey", "existskey":
		// quantification over the key type of a map: forallkey(k, m, body)
		if len(args) != 3 || args[0].Op != "id" {
			sfail("%s(k, map, body)", name)
		}
		mv := e.force(e.eval(args[1]))
		mt, ok := mv.T.Underlying().(*types.Map)
		if !ok {
			sfail("%s: second argument must be a map", name)
		}
		x.nFrames++
		bv := sym(fmt.Sprintf("%s!q%d", args[0].Name, x.nFrames))
		b := fr.evalBool(args[2], e.with(args[0].Name, fr.keyVal(mt.Key(), bv)))
		if name == "forallkey" {
			return boolVal("(forall ((" + bv + " " + x.keySort(mt.Key()) + ")) " + b + ")")
		}
		return boolVal("(exists ((" + bv + " " + x.keySort(mt.Key()) + ")) " + b + ")")
	case "sum":
		return e.sum(args)
	case "min", "max":
		need(2)
		a, b := e.intTerm(args[0]), e.intTerm(args[1])
		if name == "min" {
			return intVal(sIte(sLe(a, b), a, b))
		}
		return intVal(sIte(sLe(a, b), b, a))
	case "ite":
		need(3)
		c := fr.evalBool(args[0], e)
		a := e.force(e.eval(args[1]))
		b := e.force(e.eval(args[2]))
		if a.isNilLit() {
			a = &SVal{T: b.T, Term: "0"}
		}
		if b.isNilLit() {
			b = &SVal{T: a.T, Term: "0"}
		}
		return fr.iteVal(c, a, b)
	case "in":
		need(2)
		k := e.force(e.eval(args[0]))
		m := e.force(e.eval(args[1]))
		if kindOf(m.T) != KMap {
			sfail("in: second argument must be a map")
		}
		_, in := fr.mapLookupIn(e.heap, m, e.keyTerm(k))
		return boolVal(sAnd(sNot(sEq(m.Term, "0")), in))
	case "typeis":
		need(2)
		v := e.force(e.eval(args[0]))
		t := e.resolveType(args[1])
		return boolVal(sAnd(sNot(sEq(v.Term, "0")), sEq("(typetag "+v.Term+")", x.typeTag(t))))
	case "unwrap":
		// unwrap(v, T): payload of interface value v as concrete type T
		need(2)
		v := e.force(e.eval(args[0]))
		t := e.resolveType(args[1])
		return fr.unmakeInterface(v.Term, t)
	case "fresh":
		need(1)
		v := e.force(e.eval(args[0]))
		t := v.Term
		if kindOf(v.T) == KSlice {
			t = v.F[0].Term
		}
		return boolVal(sLt(x.heapGet(e.old, allocName, "Int"), t))
	case "allocated":
		need(1)
		v := e.force(e.eval(args[0]))
		t := v.Term
		if kindOf(v.T) == KSlice {
			t = v.F[0].Term
		}
		return boolVal(sLe(t, x.heapGet(e.heap, allocName, "Int")))
	case "sumext":
		// theorem: pointwise equal terms have equal sums
		if len(args) != 5 || args[0].Op != "id" {
			sfail("sumext(k, lo, hi, term1, term2)")
		}
		if !e.inHint {
			sfail("sumext is only allowed in a hint")
		}
		s1 := e.sum([]*Node{args[0], args[1], args[2], args[3]})
		s2 := e.sum([]*Node{args[0], args[1], args[2], args[4]})
		pw := e.quant("forall", []*Node{args[0], args[1], args[2], {Op: "==", Args: []*Node{args[3], args[4]}}})
		return boolVal(sImp(pw.Term, sEq(s1.Term, s2.Term)))
	case "mkstruct":
		// mkstruct(T, f1, f2, ...): a value of struct type T from its field values, in order
		if len(args) < 1 {
			sfail("mkstruct(T, fields...)")
		}
		t := e.resolveType(args[0])
		st, ok := t.Underlying().(*types.Struct)
		if !ok || st.NumFields() != len(args)-1 {
			sfail("mkstruct: %s is not a struct with %d fields", args[0], len(args)-1)
		}
		sv := &SVal{T: t}
		for i2 := 0; i2 < st.NumFields(); i2++ {
			fv := e.force(e.eval(args[i2+1]))
			if fv.T == specIntType {
				fv = leaf(st.Field(i2).Type(), fv.Term)
			}
			sv.F = append(sv.F, fv)
		}
		return sv
	case "resultof":
		// resultof(Name, i): i-th result of the latest call to Name (or Type.Name) that
		// dominates the current point of this function
		need(2)
		nm := args[0].String()
		var i int
		fmt.Sscan(args[1].Name, &i)
		T, ok := x.resTypes[nm]
		if !ok {
			if e.freshUnknown {
				return intVal(x.em.Fresh("undef.resultof", "Int"))
			}
			sfail("resultof(%s): no call of that name before this point", nm)
		}
		k := 0
		whole := buildVal(T, func(l Leaf) string {
			t := x.heapGet(e.heap, fmt.Sprintf("$res:%s:%d", nm, k), l.Sort)
			k++
			return t
		})
		if whole.F != nil && kindOf(T) == KTuple {
			if i < 0 || i >= len(whole.F) {
				sfail("resultof: index out of range")
			}
			r := whole.F[i]
			if r.T == nil {
				r.T = T.(*types.Tuple).At(i).Type()
			}
			return r
		}
		if i != 0 {
			sfail("resultof: single result")
		}
		return whole
	case "called":
		// called(Name): a call to a function or method called Name has been executed earlier
		// in this function (ghost state maintained by the generator for contracts with guards)
		need(1)
		cn := args[0].Name
		if args[0].Op != "id" {
			// Type.method
			cn = args[0].String()
			if strings.ContainsAny(cn, " ()[]") {
				sfail("called(FunctionName) or called(Type.method)")
			}
		}
		nm := "$called:" + cn
		x.em.Assert(sNot(x.em.Const(nm+"@0", "Bool")))
		return boolVal(x.heapGet(e.heap, nm, "Bool"))
	case "nth":
		// nth(tuple, i): component of a multi-result value
		need(2)
		v := e.force(e.eval(args[0]))
		if args[1].Op != "int" || v.F == nil {
			sfail("nth(tuple, literal index)")
		}
		var i int
		fmt.Sscan(args[1].Name, &i)
		if i < 0 || i >= len(v.F) {
			sfail("nth: index out of range")
		}
		r := v.F[i]
		if r.T == nil {
			if tp, ok := v.T.(*types.Tuple); ok {
				r.T = tp.At(i).Type()
			}
		}
		return r
	case "unchanged":
		// unchanged(e): the object e (a map, a slice's elements, or the struct a pointer
		// refers to), located in the pre-state, has the same contents now
		need(1)
		o := *e
		o.heap = e.old
		v := o.force(o.eval(args[0]))
		var cs []string
		same := func(name, srt, cell string) {
			a := sSelect(x.heapGet(e.old, name, srt), cell)
			b := sSelect(x.heapGet(e.heap, name, srt), cell)
			cs = append(cs, sEq(a, b))
		}
		switch kindOf(v.T) {
		case KMap:
			mh := fr.mapInfo(v.T)
			same(mh.dom, mh.domS, v.Term)
			same(mh.ln, "(Array Int Int)", v.Term)
			for _, l := range mh.valLeaves {
				same(mh.valHeapName(l), mh.valSort(l), v.Term)
			}
		case KSlice:
			for _, eh := range elemHeaps(elemType(v.T)) {
				same(eh.name, eh.sort, v.F[0].Term)
			}
		case KPtr:
			loc := v.Loc
			if loc == nil {
				pt, ok := v.T.Underlying().(*types.Pointer)
				if !ok {
					sfail("unchanged: bad pointer")
				}
				loc = &Loc{Kind: LRef, Base: v.Term, Root: pt.Elem(), T: pt.Elem()}
			}
			cur := fr.readLocIn(e.heap, loc)
			old := fr.readLocIn(e.old, loc)
			cs = append(cs, e.equal(cur, old))
		default:
			sfail("unchanged(%s): expected a map, slice or pointer", args[0])
		}
		return boolVal(sAnd(cs...))
	case "frame":
		// frame(loc, ...): compared with the state at function entry, memory allocated then
		// differs at most in the listed locations (same items as a modifies clause). Meant as
		// a loop invariant for loops whose effects the generator cannot localise by itself.
		oenv := *e
		oenv.heap = e.old
		allowed := map[string]bool{}
		cells := map[string][]string{}
		for _, m := range args {
			cell := fr.modCell(m, &oenv)
			for _, n := range fr.resolveModifies(m, &oenv) {
				if cell == "" {
					allowed[n] = true
				} else {
					cells[n] = append(cells[n], cell)
				}
			}
		}
		if e.heap.epoch != e.old.epoch {
			return boolVal("false")
		}
		a0 := x.heapGet(e.old, allocName, "Int")
		var names []string
		for n := range e.heap.m {
			names = append(names, n)
		}
		sort.Strings(names)
		var cs []string
		for _, n := range names {
			if allowed[n] || strings.HasPrefix(n, "$") {
				continue
			}
			srt := e.heap.sorts[n]
			t0 := x.heapGet(e.old, n, srt)
			t1 := e.heap.m[n]
			if t0 == t1 {
				continue
			}
			if strings.HasPrefix(n, "G:") {
				cs = append(cs, sEq(t0, t1))
				continue
			}
			x.nFrames++
			r := fmt.Sprintf("r!q%d", x.nFrames)
			guard := []string{sLe(r, a0)}
			for _, cl := range cells[n] {
				guard = append(guard, sNot(sEq(r, cl)))
			}
			cs = append(cs, "(forall (("+r+" Int)) (=> "+sAnd(guard...)+" (= (select "+t1+" "+r+") (select "+t0+" "+r+"))))")
		}
		return boolVal(sAnd(cs...))
	case "param":
		// param(x): the value parameter x had on entry, where the name x itself now denotes a
		// loop-carried or reassigned variable
		need(1)
		if args[0].Op != "id" {
			sfail("param(name)")
		}
		if v, ok := fr.params[args[0].Name]; ok {
			return v
		}
		sfail("param(%s): no such parameter", args[0].Name)
	case "bytesof":
		// bytesof(s): the bytes of string s as a slice value, only for passing to pure functions
		// (what the code writes as f([]byte(s)))
		need(1)
		sv := e.force(e.eval(args[0]))
		if kindOf(sv.T) != KStr {
			sfail("bytesof: string expected")
		}
		x.declStrEmpty()
		f := x.em.Func("str2bytes", []string{"Str"}, "(Array Int Int)")
		ln := "(strlen " + sv.Term + ")"
		return &SVal{T: types.NewSlice(types.Typ[types.Uint8]), Row: sApp(f, sv.Term),
			F: []*SVal{leaf(intType, "0"), leaf(intType, "0"), leaf(intType, ln), leaf(intType, ln)}}
	case "sameslice":
		need(2)
		a := e.force(e.eval(args[0]))
		b := e.force(e.eval(args[1]))
		return boolVal(sAnd(sEq(a.F[0].Term, b.F[0].Term), sEq(a.F[1].Term, b.F[1].Term), sEq(a.F[2].Term, b.F[2].Term)))
	case "int":
		need(1)
		return intVal(e.intTerm(args[0]))
	}
	if strings.HasPrefix(name, "uf_") || strings.HasPrefix(name, "up_") {
		var sorts, terms []string
		for _, a := range args {
			v := e.force(e.eval(a))
			for _, l := range fr.pureArgLeaves2(v, e.heap) {
				sorts = append(sorts, l[0])
				terms = append(terms, l[1])
			}
		}
		ret := "Int"
		if strings.HasPrefix(name, "up_") {
			ret = "Bool"
		}
		f := x.em.Func("spec:"+name, sorts, ret)
		if ret == "Bool" {
			return boolVal(sApp(f, terms...))
		}
		return intVal(sApp(f, terms...))
	}
	if s := e.findSpec(name); s != nil {
		return e.applySpec(s, args)
	}
	// pure Go function of the current package
	if e.pkg != nil {
		return e.pureCall(shortPkg(e.pkg.Pkg.Path())+"."+name, e.pkg.Pkg, name, nil, args)
	}
	sfail("unknown function %s", name)
	return nil
}

func (e *SpecEnv) applySpec(s *SpecFn, args []*Node) *SVal {
	if s.Opaque {
		return e.applyOpaque(s, args)
	}
	if len(args) != len(s.Params) {
		sfail("spec %s expects %d arguments", s.Name, len(s.Params))
	}
	if e.depth > 20 {
		sfail("spec recursion too deep in %s", s.Name)
	}
	n := *e
	n.vars = map[string]*SVal{}
	for k, v := range e.vars {
		n.vars[k] = v
	}
	for i, p := range s.Params {
		n.vars[p] = e.eval(args[i])
	}
	n.depth = e.depth + 1
	// names inside the body resolve in the spec's home package
	if s.Pkg != "" && (e.pkg == nil || shortPkg(e.pkg.Pkg.Path()) != s.Pkg) {
		for _, p := range e.fr.x.w.prog.AllPackages() {
			if shortPkg(p.Pkg.Path()) == s.Pkg {
				n.pkg = p
			}
		}
		n.specPkg = s.Pkg
	}
	return n.eval(s.Body)
}

// pureCall applies the uninterpreted function that stands for a `pure` Go function.
func (e *SpecEnv) pureCall(key string, p *types.Package, name string, recv *SVal, args []*Node) *SVal {
	fr := e.fr
	x := fr.x
	c := x.w.contracts[key]
	if c == nil || !c.Pure {
		sfail("%s is not a pure function under contract (no spec named %s either)", key, name)
	}
	fn := x.w.funcs[key]
	if fn == nil {
		sfail("pure function %s not found", key)
	}
	var vals []*SVal
	if recv != nil {
		vals = append(vals, recv)
	}
	for _, a := range args {
		vals = append(vals, e.force(e.eval(a)))
	}
	// coerce spec ints to parameter types
	for i, v := range vals {
		if i < len(fn.Params) && v.T == specIntType {
			vals[i] = leaf(fn.Params[i].Type(), v.Term)
		}
		if v.isNilLit() && i < len(fn.Params) {
			vals[i] = zeroVal(fn.Params[i].Type())
		}
	}
	sorts, terms := fr.pureInputs(c, fn, vals, e.heap)
	var rt types.Type = fn.Signature.Results()
	if fn.Signature.Results().Len() == 1 {
		rt = fn.Signature.Results().At(0).Type()
	}
	return buildVal(rt, func(l Leaf) string {
		nm := "pure:" + key
		if len(l.Path) > 0 {
			nm += ":" + strings.Join(l.Path, ".")
		}
		return sApp(x.em.Func(nm, sorts, l.Sort), terms...)
	})
}

func (fr *Frame) pureArgLeaves2(v *SVal, h *HeapState) [][2]string {
	save := fr.cur
	fr.cur = h
	defer func() { fr.cur = save }()
	return fr.pureArgLeaves(v)
}

func (e *SpecEnv) pureMethod(recv *SVal, name string, args []*Node) *SVal {
	t := recv.T
	if p, ok := t.Underlying().(*types.Pointer); ok {
		t = p.Elem()
	}
	named, ok := t.(*types.Named)
	if !ok {
		sfail("method %s on unnamed type %s", name, recv.T)
	}
	key := shortPkg(named.Obj().Pkg().Path()) + "." + named.Obj().Name() + "." + name
	if kindOf(named) == KIface {
		// pure interface method
		c := e.fr.x.w.contracts[key]
		if c == nil || !c.Pure {
			sfail("interface method %s is not declared pure", key)
		}
		x := e.fr.x
		r := e.force(recv)
		sorts := []string{"Int"}
		terms := []string{r.Term}
		for _, a := range args {
			v := e.force(e.eval(a))
			for _, l := range e.fr.pureArgLeaves2(v, e.heap) {
				sorts = append(sorts, l[0])
				terms = append(terms, l[1])
			}
		}
		m, _, _ := types.LookupFieldOrMethod(named, true, named.Obj().Pkg(), name)
		sig := m.Type().(*types.Signature)
		var rt types.Type = sig.Results()
		if sig.Results().Len() == 1 {
			rt = sig.Results().At(0).Type()
		}
		return buildVal(rt, func(l Leaf) string {
			nm := "pure:" + key
			if len(l.Path) > 0 {
				nm += ":" + strings.Join(l.Path, ".")
			}
			return sApp(x.em.Func(nm, sorts, l.Sort), terms...)
		})
	}
	fn := e.fr.x.w.funcs[key]
	if fn == nil {
		sfail("method %s not found", key)
	}
	rv := recv
	if _, isPtr := fn.Params[0].Type().Underlying().(*types.Pointer); isPtr {
		// pointer receiver: pass pointer (pureArgLeaves dereferences)
		if recv.LV {
			rv = &SVal{T: types.NewPointer(recv.T), Loc: recv.Loc}
		}
	} else {
		rv = e.force(recv)
		if kindOf(rv.T) == KPtr {
			loc := e.fr.ptrLoc(rv, false)
			rv = e.fr.readLocIn(e.heap, loc)
		}
	}
	return e.pureCall(key, named.Obj().Pkg(), name, rv, args)
}

func (e *SpecEnv) resolveType(n *Node) types.Type {
	ptr := false
	// allow ptr(T) for *T
	if n.Op == "call" && n.Args[0].Op == "id" && n.Args[0].Name == "ptr" {
		ptr = true
		n = n.Args[1]
	}
	var obj types.Object
	switch n.Op {
	case "id":
		if e.pkg != nil {
			obj = e.pkg.Pkg.Scope().Lookup(n.Name)
		}
		if obj == nil {
			obj = types.Universe.Lookup(n.Name)
		}
	case ".":
		if p := e.importedPkg(n.Args[0].Name); p != nil {
			obj = p.Scope().Lookup(n.Name)
		}
	}
	tn, ok := obj.(*types.TypeName)
	if !ok {
		sfail("cannot resolve type %s", n)
	}
	if ptr {
		return types.NewPointer(tn.Type())
	}
	return tn.Type()
}

func (e *SpecEnv) quant(kind string, args []*Node) *SVal {
	x := e.fr.x
	if len(args) != 4 && len(args) != 2 {
		sfail("%s(i, lo, hi, body) or %s(i, body)", kind, kind)
	}
	if args[0].Op != "id" {
		sfail("%s: first argument must be a variable name", kind)
	}
	x.nFrames++
	bv := fmt.Sprintf("%s!q%d", args[0].Name, x.nFrames)
	bvq := sym(bv)
	n := e.with(args[0].Name, intVal(bvq))
	var guard string
	body := args[len(args)-1]
	if len(args) == 4 {
		lo, hi := e.intTerm(args[1]), e.intTerm(args[2])
		guard = sAnd(sLe(lo, bvq), sLt(bvq, hi))
	} else {
		guard = "true"
	}
	b := e.fr.evalBool(body, n)
	q := "(forall ((" + bvq + " Int)) " + sImp(guard, b) + ")"
	// forall i. G ==> (A ==> forall j. R): the condition A (which cannot mention j) joins the guard
	fb, fguard := b, guard
	if kind == "forall" && strings.HasPrefix(b, "(=> ") && os.Getenv("GOVC_NOPULL") == "" {
		if ia := sexprArgs(b); len(ia) == 3 && ia[0] == "=>" && strings.HasPrefix(ia[2], "(forall ((") {
			fguard, fb = sAnd(guard, ia[1]), ia[2]
		}
	}
	if kind == "forall" && strings.HasPrefix(fb, "(forall ((") {
		// forall i. G ==> forall j. R   is written   forall i j. G ==> R : one quantifier with
		// several variables is instantiated in one step, nested ones level by level
		if parts := sexprArgs(fb); len(parts) == 3 && parts[0] == "forall" {
			inner := parts[2]
			if ia := sexprArgs(inner); len(ia) == 3 && ia[0] == "=>" {
				inner = sImp(sAnd(fguard, ia[1]), ia[2])
			} else {
				inner = sImp(fguard, inner)
			}
			q = "(forall ((" + bvq + " Int) " + strings.TrimPrefix(parts[1], "(") + " " + inner + ")"
		}
	}
	if kind == "exists" {
		q = "(exists ((" + bvq + " Int)) " + sAnd(guard, b) + ")"
	}
	// Ground instances at the indices of the enclosing loops. (forall k. P) is equivalent to
	// (forall k. P) && P[t], and (exists k. P) to (exists k. P) || P[t], so this is sound in
	// either polarity; it spares the solver an E-matching step through offset arithmetic.
	// (only for a single, un-nested quantifier: inside nested quantifiers the extra conjuncts
	// were observed to make the solvers give up)
	if len(args) == 4 && e.sumCtx == nil && os.Getenv("GOVC_NOINST") == "" && (kind == "exists" || (!strings.Contains(b, "(forall ") && !strings.Contains(b, "(exists ") && !hasOuterQuant(e))) {
		var insts []string
		for _, t := range e.fr.loopIndexTerms() {
			if hasBound(t) {
				continue
			}
			m := e.with(args[0].Name, intVal(t))
			lo, hi := e.intTerm(args[1]), e.intTerm(args[2])
			g := sAnd(sLe(lo, t), sLt(t, hi))
			bi := e.fr.evalBool(body, m)
			if kind == "forall" {
				// (hint ...): kept where the clause is assumed, dropped ("true") where it is
				// the goal: there the instance follows from the quantified conjunct anyway
				insts = append(insts, "(hint "+sImp(g, bi)+")")
			} else {
				insts = append(insts, "(hinte "+sAnd(g, bi)+")")
			}
		}
		if len(insts) > 0 {
			if kind == "forall" {
				q = sAnd(append([]string{q}, insts...)...)
			} else {
				q = sOr(append([]string{q}, insts...)...)
			}
		}
	}
	return boolVal(q)
}

// loopIndexTerms: the current values of the index variables of the loops enclosing the block
// being executed (range index + 1 for range loops).
func (fr *Frame) loopIndexTerms() []string {
	if fr.curBlock == nil || fr.loopsOf == nil {
		return nil
	}
	var out []string
	// headers dominating the current block (includes exit paths out of the loop body)
	var hs []*ssa.BasicBlock
	for d := fr.curBlock; d != nil; d = d.Idom() {
		if fr.loops[d] != nil {
			hs = append([]*ssa.BasicBlock{d}, hs...)
		}
	}
	for _, h := range hs {
		for _, in := range h.Instrs {
			phi, ok := in.(*ssa.Phi)
			if !ok {
				break
			}
			v, ok := fr.vals[phi]
			if !ok || v.F != nil || kindOf(v.T) != KInt {
				continue
			}
			if phi.Comment == "rangeindex" {
				// a named constant, so that "(+ off idx)" matches the pattern "(+ off k)" of a
				// quantified fact syntactically (the solvers flatten "(+ off (+ ri 1))")
				t := sAdd(v.Term, "1")
				if fr.x.idxConst == nil {
					fr.x.idxConst = map[string]string{}
				}
				c, ok := fr.x.idxConst[t]
				if !ok {
					c = fr.x.em.Fresh("idx", "Int")
					fr.x.em.Raw("(assert (= " + c + " " + t + "))")
					fr.x.idxConst[t] = c
				}
				out = append(out, c)
				// ... and the index itself: at a back edge the phi stands for the latch value,
				// and the element just processed is at that index
				if !strings.Contains(v.Term, "(") {
					out = append(out, v.Term)
				} else {
					c2, ok := fr.x.idxConst[v.Term]
					if !ok {
						c2 = fr.x.em.Fresh("idx", "Int")
						fr.x.em.Raw("(assert (= " + c2 + " " + v.Term + "))")
						fr.x.idxConst[v.Term] = c2
					}
					out = append(out, c2)
				}
			}
		}
	}
	if len(out) > 4 {
		out = out[len(out)-4:]
	}
	return out
}

// sum(k, lo, hi, term): uninterpreted prefix-sum function with ground unfolding at hi.
func (e *SpecEnv) sumOld(args []*Node) *SVal {
	x := e.fr.x
	if len(args) != 4 || args[0].Op != "id" {
		sfail("sum(k, lo, hi, term)")
	}
	lo, hi := e.intTerm(args[1]), e.intTerm(args[2])
	ph := "$SUMVAR$"
	n := e.with(args[0].Name, intVal(ph))
	tv := n.force(n.eval(args[3]))
	if k := kindOf(tv.T); k != KInt && k != KSpecInt {
		sfail("sum term must be an integer")
	}
	body := tv.Term
	key := lo + "|" + body
	s, ok := x.sumFns[key]
	nonneg := false
	if kindOf(tv.T) == KInt {
		if _, signed := intInfo(tv.T); !signed {
			nonneg = true
		}
	}
	if !ok {
		s = x.em.Func(fmt.Sprintf("sum!%d", len(x.sumFns)), []string{"Int"}, "Int")
		x.sumFns[key] = s
		x.em.Assert("(forall ((n Int)) (! (=> (<= n " + lo + ") (= (" + s + " n) 0)) :pattern ((" + s + " n))))")
		if nonneg {
			x.em.Assert("(forall ((a Int) (b Int)) (! (=> (<= a b) (<= (" + s + " a) (" + s + " b))) :pattern ((" + s + " a) (" + s + " b))))")
		}
	}
	at := func(t string) string { return strings.ReplaceAll(body, ph, t) }
	// ground unfolding at hi: S(hi) = S(hi-1) + T(hi-1) when hi > lo
	hm1 := sSub(hi, "1")
	if v, ok := isIntLit(hi); ok {
		hm1 = sBig(new(big.Int).Sub(v, big.NewInt(1)))
	}
	inst := "unf|" + s + "|" + hi
	if !x.sumInst[inst] && !strings.Contains(hi, "!q") && !strings.Contains(body, "!q") && !strings.Contains(lo, "!q") {
		x.sumInst[inst] = true
		x.em.Assert(sImp(sLt(lo, hi), sEq(sApp(s, hi), sAdd(sApp(s, hm1), at(hm1)))))
		if nonneg {
			x.em.Assert(sImp(sLt(lo, hi), sLe("0", at(hm1))))
		}
		// one step ahead: S(hi+1) = S(hi) + T(hi) (used on loop-exit paths inside the body)
		if _, lit := isIntLit(hi); !lit && !strings.Contains(hi, "!q") {
			hp1 := sAdd(hi, "1")
			x.sumInst["unf|"+s+"|"+hp1] = true
			x.em.Assert(sImp(sLe(lo, hi), sEq(sApp(s, hp1), sAdd(sApp(s, hi), at(hi)))))
		}
	}
	return intVal(sApp(s, hi))
}
