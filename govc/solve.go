package main

import (
	"bytes"
	"context"
	"crypto/sha256"
	"encoding/hex"
	"encoding/json"
	"fmt"
	"os"
	"os/exec"
	"path/filepath"
	"sort"
	"strings"
	"sync"
	"time"
)

type SolverCfg struct {
	Timeout  time.Duration
	CacheDir string
	OutDir   string // where .smt2 files are written
	Workers  int
	NoCache  bool
}

type solverDef struct {
	name string
	argv func(file string, to time.Duration) []string
}

var solvers = []solverDef{
	{"z3-new-5.1.0", func(f string, to time.Duration) []string {
		return []string{"z3-new", fmt.Sprintf("-T:%d", int(to.Seconds()+0.999)), f}
	}},
	{"z3-4.8.12", func(f string, to time.Duration) []string {
		return []string{"z3", fmt.Sprintf("-T:%d", int(to.Seconds()+0.999)), f}
	}},
	{"cvc5-1.0", func(f string, to time.Duration) []string {
		return []string{"cvc5", fmt.Sprintf("--tlimit=%d", to.Milliseconds()), f}
	}},
	// z3-new without its automatic configuration (which picks tactics by a static look at the
	// query): on the quantified array goals of the pairwise loops it answers in a fraction of
	// the time, or at all, where the default configuration wanders
	{"z3-new-5.1.0-noauto", func(f string, to time.Duration) []string {
		return []string{"z3-new", fmt.Sprintf("-T:%d", int(to.Seconds()+0.999)), "smt.auto_config=false", f}
	}},
}

func (o *Obligation) smtText() string {
	var b strings.Builder
	b.WriteString(smtPrelude)
	for _, l := range o.em.Lines[:o.Pos] {
		b.WriteString(l)
		b.WriteByte('\n')
	}
	b.WriteString("(assert " + o.Goal + ")\n(check-sat)\n")
	return b.String()
}

type cacheEntry struct {
	Result  string  `json:"result"`
	Solver  string  `json:"solver"`
	Seconds float64 `json:"seconds"`
}

func fileSafe(s string) string {
	r := strings.NewReplacer("/", "_", " ", "_", "*", "p", "(", "", ")", "", "$", "_", "|", "_", "<", "_", ">", "_", "\"", "", "'", "", "&", "_", ";", "_")
	s = r.Replace(s)
	if len(s) > 180 {
		h := sha256.Sum256([]byte(s))
		s = s[:160] + "_" + hex.EncodeToString(h[:6])
	}
	return s
}

func runOne(ctx context.Context, sd solverDef, file string, to time.Duration) (string, string) {
	if to < 500*time.Millisecond {
		return "timeout", "budget exhausted"
	}
	argv := sd.argv(file, to)
	cctx, cancel := context.WithTimeout(ctx, to+2*time.Second)
	defer cancel()
	cmd := exec.CommandContext(cctx, argv[0], argv[1:]...)
	var out bytes.Buffer
	cmd.Stdout = &out
	cmd.Stderr = &out
	cmd.Run()
	s := out.String()
	first := strings.TrimSpace(strings.SplitN(s, "\n", 2)[0])
	switch first {
	case "sat", "unsat", "unknown":
		return first, s
	}
	if strings.Contains(s, "timeout") || cctx.Err() != nil {
		return "timeout", s
	}
	return "error", s
}

// solve decides one obligation.
func solve(o *Obligation, cfg *SolverCfg) {
	if o.Solver == "syntactic" {
		return
	}
	text := o.smtText()
	o.Bytes = len(text)
	sum := sha256.Sum256([]byte(text))
	hash := hex.EncodeToString(sum[:])
	cfile := filepath.Join(cfg.CacheDir, hash[:2], hash+".json")
	file := filepath.Join(cfg.OutDir, fileSafe(o.Name)+".smt2")
	os.MkdirAll(filepath.Dir(file), 0o755)
	os.WriteFile(file, []byte(text), 0o644)
	o.File = file
	if !cfg.NoCache {
		if b, err := os.ReadFile(cfile); err == nil {
			var ce cacheEntry
			if json.Unmarshal(b, &ce) == nil && (ce.Result == "sat" || ce.Result == "unsat") {
				o.Result, o.Solver, o.Seconds = ce.Result, ce.Solver+" (cached)", ce.Seconds
				if ce.Result != o.Expect {
					// need a model / output: re-run below
				} else {
					return
				}
			}
		}
	}
	if len(text) > 4<<20 {
		o.Result = "too-large"
		return
	}
	start := time.Now()
	// overall budget of one obligation in one round: all stages together
	deadline := start.Add(6 * cfg.Timeout)
	// stage 1: z3-new alone, short
	st1 := 2 * time.Second
	if cfg.Timeout < st1 {
		st1 = cfg.Timeout
	}
	res, out := runOne(context.Background(), solvers[0], file, st1)
	solver := solvers[0].name
	if o.Kind == "cover" && res != "sat" && res != "unsat" {
		// vacuity guard only: "unknown" is tolerated, do not spend the race on it
		res2, out2 := runOne(context.Background(), solvers[1], file, st1)
		if res2 == "sat" || res2 == "unsat" {
			res, out, solver = res2, out2, solvers[1].name
		}
	}
	if o.Kind != "cover" && res != "sat" && res != "unsat" && len(solvers) > 3 {
		// stage 1b: the same solver without automatic configuration, short
		res2, out2 := runOne(context.Background(), solvers[3], file, capTo(4*time.Second, deadline))
		if res2 == "sat" || res2 == "unsat" {
			res, out, solver = res2, out2, solvers[3].name
		}
	}
	if o.Kind != "cover" && res != "sat" && res != "unsat" {
		// stage 2: portfolio (see portfolio): the full query on all three solvers, the query with
		// redundant instances switched off, and relevance-sliced queries, side by side
		var used string
		// (first a short plain race: most obligations that survive stage 1 end here, and the
		// extra variants cost processes)
		short := 6 * time.Second
		large := len(text) > 150000
		if cfg.Timeout > short && !large {
			res, out, solver, used = portfolio(text, file, capTo(short, deadline), false)
		}
		if res != "sat" && res != "unsat" && large && o.Expect == "unsat" {
			// a large conjunctive goal: the conjuncts one by one (each with its own sliced
			// variants) are usually quicker than the whole
			if _, parts := splitGoal(o.Goal); len(parts) >= 2 {
				if r3, out3, name3, ok := solveSplit(o, cfg, file, start.Add(3*cfg.Timeout)); ok {
					res, out, solver = r3, out3, name3
					if res == "sat" {
						if b, err := os.ReadFile(file); err == nil {
							text = string(b)
						}
					}
				}
			}
		}
		if res != "sat" && res != "unsat" {
			res, out, solver, used = portfolio(text, file, capTo(cfg.Timeout, deadline), o.Expect == "unsat")
		}
		if res == "sat" && used != "" {
			text = used
		}
	}
	if res != "sat" && res != "unsat" && o.Expect == "unsat" && o.Kind != "cover" {
		// stage 3: a conjunctive goal is decided conjunct by conjunct. reach && !(A && B) is
		// unsatisfiable iff reach && !A and reach && !B both are; a model of either part is a
		// model of the whole.
		if r3, out3, name3, ok := solveSplit(o, cfg, file, deadline); ok {
			res, out, solver = r3, out3, name3
			if res == "sat" {
				if b, err := os.ReadFile(file); err == nil {
					text = string(b)
				}
			}
		}
	}
	o.Seconds = time.Since(start).Seconds()
	o.Result, o.Solver, o.Output = res, solver, out
	if res == "sat" && o.Expect == "unsat" {
		// get a model (separate run keeps the decisive run fast)
		mfile := strings.TrimSuffix(file, ".smt2") + ".model.smt2"
		os.WriteFile(mfile, []byte(text+"(get-model)\n"), 0o644)
		for _, sd := range solvers {
			if sd.name == solver {
				_, mo := runOne(context.Background(), sd, mfile, cfg.Timeout)
				o.Model = mo
			}
		}
	}
	if res == "sat" || res == "unsat" {
		os.MkdirAll(filepath.Dir(cfile), 0o755)
		b, _ := json.Marshal(cacheEntry{res, solver, o.Seconds})
		os.WriteFile(cfile, b, 0o644)
	}
}

// portfolio runs, side by side and until the first usable answer:
//   - the full query on z3-new, z3 4.8.12 and cvc5 (sat and unsat count);
//   - the query with the redundant quantifier instances switched off (they are consequences of
//     the quantified formulas they accompany: an equivalent query; sat and unsat count);
//   - relevance-sliced queries of depth 1 and 2 (fewer assumptions: only unsat counts).
// Returns the result, solver output, a label for the evidence and, for a sat answer, the text
// of the query that produced it.
func portfolio(text, file string, to time.Duration, wantUnsat bool) (res, out, label, used string) {
	type variant struct {
		file, text, tag string
		sat            bool
		solvers        []int
	}
	vs := []variant{{file, text, "", true, []int{0, 1, 2, 3}}}
	base := strings.TrimSuffix(file, ".smt2")
	if wantUnsat {
		if strings.Contains(text, "(hint") {
			t2 := strings.Replace(text, "(define-fun hint ((b Bool)) Bool b)", "(define-fun hint ((b Bool)) Bool true)", 1)
			t2 = strings.Replace(t2, "(define-fun hinte ((b Bool)) Bool b)", "(define-fun hinte ((b Bool)) Bool false)", 1)
			vs = append(vs, variant{base + ".noinst.smt2", t2, "noinst:", true, []int{0, 1}})
		}
		if len(text) > 40000 {
			if s1 := sliceQuery(text, 1); s1 != "" {
				vs = append(vs, variant{base + ".slice1.smt2", s1, "slice(1):", false, []int{0, 2}})
				if s2 := sliceQuery(text, 2); s2 != "" && len(s2) != len(s1) {
					vs = append(vs, variant{base + ".slice2.smt2", s2, "slice(2):", false, []int{0}})
				}
			}
			// rarest-symbol (SInE) slices to a fixpoint, a narrow and a wide one
			if s3 := sliceQueryTol(text, 3, 1.2); s3 != "" {
				vs = append(vs, variant{base + ".sine1.smt2", s3, "sine(3,1.2):", false, []int{0, 3}})
				if s4 := sliceQueryTol(text, 8, 2); s4 != "" && len(s4) != len(s3) {
					vs = append(vs, variant{base + ".sine2.smt2", s4, "sine(8,2):", false, []int{3}})
				}
			}
		}
	}
	ctx, cancel := context.WithCancel(context.Background())
	defer cancel()
	type r struct {
		res, out, name string
		v              int
	}
	n := 0
	ch := make(chan r, 16)
	for vi, v := range vs {
		if vi > 0 {
			os.WriteFile(v.file, []byte(v.text), 0o644)
		}
		for _, si := range v.solvers {
			n++
			go func(vi int, f string, sd solverDef) {
				a, b := runOne(ctx, sd, f, to)
				ch <- r{a, b, sd.name, vi}
			}(vi, v.file, solvers[si])
		}
	}
	var outs []string
	errs := 0
	res, label = "timeout", "none"
	for i := 0; i < n; i++ {
		x := <-ch
		v := vs[x.v]
		if x.res == "unsat" || (x.res == "sat" && v.sat) {
			res, out, label = x.res, x.out, v.tag+x.name
			if x.res == "sat" {
				used = v.text
			}
			break
		}
		if x.v == 0 {
			outs = append(outs, x.name+": "+x.res+" "+firstLines(x.out, 3))
			// (one solver rejecting the query - cvc5 on arrays indexed by arrays - is not an
			// engine error as long as another solver accepts it)
			if x.res == "unknown" {
				res = "unknown"
			}
			if x.res == "error" {
				errs++
			}
		}
	}
	cancel()
	for _, v := range vs[1:] {
		os.Remove(v.file)
	}
	if res != "sat" && res != "unsat" && errs == len(vs[0].solvers) {
		res = "error"
	}
	if res != "sat" && res != "unsat" {
		out = strings.Join(outs, "\n")
	}
	return
}

// capTo limits a solver timeout by what is left of an obligation's overall budget.
func capTo(to time.Duration, deadline time.Time) time.Duration {
	if r := time.Until(deadline); r < to {
		to = r
	}
	if to < 0 {
		to = 0
	}
	return to
}

// sliceDecide tries relevance-sliced versions of a query (see sliceQuery); only "unsat" counts.
func sliceDecide(text, file string, to time.Duration, deadline time.Time) (string, bool) {
	for _, depth := range []int{1, 2, 3} {
		to := capTo(to, deadline)
		if to < time.Second {
			return "", false
		}
		st := sliceQuery(text, depth)
		if st == "" {
			return "", false
		}
		f5 := strings.TrimSuffix(file, ".smt2") + fmt.Sprintf(".slice%d.smt2", depth)
		os.WriteFile(f5, []byte(st), 0o644)
		ctx, cancel := context.WithCancel(context.Background())
		type r struct{ res, name string }
		ch := make(chan r, len(solvers))
		for _, sd := range solvers {
			go func(sd solverDef) {
				a, _ := runOne(ctx, sd, f5, to)
				ch <- r{a, sd.name}
			}(sd)
		}
		name := ""
		for i := 0; i < len(solvers); i++ {
			x := <-ch
			if x.res == "unsat" {
				name = fmt.Sprintf("slice(%d):%s", depth, x.name)
				break
			}
		}
		cancel()
		os.Remove(f5)
		if name != "" {
			return name, true
		}
	}
	return "", false
}

// splitGoal returns reach and the conjuncts of cond for a goal "(and reach (not cond))".
func splitGoal(goal string) (string, []string) {
	top := sexprArgs(goal)
	if len(top) != 3 || top[0] != "and" {
		return "", nil
	}
	neg := sexprArgs(top[2])
	if len(neg) != 2 || neg[0] != "not" {
		return "", nil
	}
	var out []string
	var rec func(t string, pre []string)
	rec = func(t string, pre []string) {
		a := sexprArgs(t)
		if len(a) >= 2 && a[0] == "and" {
			for _, c := range a[1:] {
				rec(c, pre)
			}
			return
		}
		if len(a) == 3 && a[0] == "=>" {
			// P => (X and Y)  is  (P => X) and (P => Y)
			if c := sexprArgs(a[2]); len(c) >= 3 && (c[0] == "and" || c[0] == "=>") {
				rec(a[2], append(append([]string{}, pre...), a[1]))
				return
			}
		}
		if len(pre) > 0 {
			t = "(=> (and " + strings.Join(pre, " ") + ") " + t + ")"
		}
		out = append(out, t)
	}
	rec(neg[1], nil)
	if len(out) < 2 {
		return "", nil
	}
	return top[1], out
}

// sexprArgs splits "(f a b ...)" into [f a b ...] at the top level (nil for an atom).
func sexprArgs(s string) []string {
	s = strings.TrimSpace(s)
	if len(s) < 2 || s[0] != '(' || s[len(s)-1] != ')' {
		return nil
	}
	s = s[1 : len(s)-1]
	var out []string
	depth, start := 0, -1
	inBar, inStr := false, false
	flush := func(i int) {
		if start >= 0 {
			out = append(out, s[start:i])
			start = -1
		}
	}
	for i := 0; i < len(s); i++ {
		c := s[i]
		switch {
		case inBar:
			if c == '|' {
				inBar = false
			}
		case inStr:
			if c == '"' {
				inStr = false
			}
		case c == '|':
			inBar = true
			if start < 0 {
				start = i
			}
		case c == '"':
			inStr = true
			if start < 0 {
				start = i
			}
		case c == '(':
			if start < 0 {
				start = i
			}
			depth++
		case c == ')':
			depth--
			if depth < 0 {
				return nil
			}
		case c == ' ' || c == '\n' || c == '\t':
			if depth == 0 {
				flush(i)
			}
		default:
			if start < 0 {
				start = i
			}
		}
	}
	if depth != 0 || inBar || inStr {
		return nil
	}
	flush(len(s))
	return out
}

func solveSplit(o *Obligation, cfg *SolverCfg, file string, deadline time.Time) (res, out, solver string, ok bool) {
	reach, parts := splitGoal(o.Goal)
	if parts == nil {
		return
	}
	var prefix strings.Builder
	prefix.WriteString(smtPrelude)
	for _, l := range o.em.Lines[:o.Pos] {
		prefix.WriteString(l)
		prefix.WriteByte('\n')
	}
	used := map[string]bool{}
	for i, p := range parts {
		if time.Until(deadline) < time.Second {
			return
		}
		pf := fmt.Sprintf("%s.part%d.smt2", strings.TrimSuffix(file, ".smt2"), i)
		// conjuncts already decided may be used for the later ones: A && (A => B) gives A && B
		var earlier strings.Builder
		for _, q := range parts[:i] {
			earlier.WriteString("(assert (=> " + reach + " " + q + "))\n")
		}
		os.WriteFile(pf, []byte(prefix.String()+earlier.String()+"(assert (and "+reach+" (not "+p+")))\n(check-sat)\n"), 0o644)
		r, ro, name := "timeout", "", "none"
		st1 := 2 * time.Second
		if cfg.Timeout < st1 {
			st1 = cfg.Timeout
		}
		r, ro = runOne(context.Background(), solvers[0], pf, st1)
		name = solvers[0].name
		if r != "sat" && r != "unsat" {
			if b, err := os.ReadFile(pf); err == nil {
				r, ro, name, _ = portfolio(string(b), pf, capTo(cfg.Timeout, deadline), true)
			}
		}
		switch r {
		case "unsat":
			used[name] = true
			os.Remove(pf)
		case "sat":
			// the sub-goal's file becomes the obligation's file (model extraction, replay)
			os.Rename(pf, file)
			return "sat", ro, name, true
		default:
			if os.Getenv("GOVC_KEEPPARTS") == "" {
				os.Remove(pf)
			}
			return
		}
	}
	var names []string
	for n := range used {
		names = append(names, n)
	}
	sort.Strings(names)
	return "unsat", "", fmt.Sprintf("split(%d):%s", len(parts), strings.Join(names, "+")), true
}

func firstLines(s string, n int) string {
	ls := strings.Split(strings.TrimSpace(s), "\n")
	if len(ls) > n {
		ls = ls[:n]
	}
	return strings.Join(ls, " | ")
}

func solveAll(obls []*Obligation, cfg *SolverCfg) {
	var wg sync.WaitGroup
	ch := make(chan *Obligation)
	n := cfg.Workers
	if n <= 0 {
		n = 6
	}
	for i := 0; i < n; i++ {
		wg.Add(1)
		go func() {
			defer wg.Done()
			for o := range ch {
				solve(o, cfg)
			}
		}()
	}
	for _, o := range obls {
		ch <- o
	}
	close(ch)
	wg.Wait()
}
