package main

import (
	"os"
	"fmt"
	"go/types"
	"sort"
	"strings"

	"golang.org/x/tools/go/packages"
	"golang.org/x/tools/go/ssa"
	"golang.org/x/tools/go/ssa/ssautil"
)

// World: loaded program + contracts.
type World struct {
	prog      *ssa.Program
	pkgs      []*packages.Package
	cs        *ContractSet
	contracts map[string]*Contract
	funcs     map[string]*ssa.Function
	sentinels map[*ssa.Global]bool
	root      string
}

const repoMod = "github.com/skycoin/skycoin/"

func loadWorld(root string, patterns []string, overlay map[string][]byte) (*World, error) {
	cs, err := loadContracts(root)
	if err != nil {
		return nil, err
	}
	cfg := &packages.Config{Mode: packages.LoadAllSyntax, Dir: root, BuildFlags: []string{"-tags=verif"}, Overlay: overlay,
		Env: append(osEnviron(), "GOFLAGS=-mod=vendor", "GOPROXY=off", "GOSUMDB=off", "GOTOOLCHAIN=local")}
	pkgs, err := packages.Load(cfg, patterns...)
	if err != nil {
		return nil, err
	}
	var errs []string
	packages.Visit(pkgs, nil, func(p *packages.Package) {
		for _, e := range p.Errors {
			errs = append(errs, e.Error())
		}
	})
	if len(errs) > 0 {
		return nil, fmt.Errorf("package load errors: %s", strings.Join(errs, "; "))
	}
	prog, _ := ssautil.AllPackages(pkgs, ssa.GlobalDebug)
	prog.Build()
	w := &World{prog: prog, pkgs: pkgs, cs: cs, contracts: cs.byKey, funcs: map[string]*ssa.Function{}, sentinels: map[*ssa.Global]bool{}, root: root}
	for fn := range ssautil.AllFunctions(prog) {
		if fn.Synthetic != "" && fn.Parent() == nil {
			continue
		}
		if fn.Pkg == nil && fn.Object() == nil && fn.Parent() == nil {
			continue
		}
		k := funcKey(fn)
		if old, ok := w.funcs[k]; ok && old != fn {
			// prefer the one with a body
			if old.Blocks != nil {
				continue
			}
		}
		w.funcs[k] = fn
	}
	w.findSentinels()
	return w, nil
}

// findSentinels: package-level error variables that are assigned exactly once (in init).
func (w *World) findSentinels() {
	stores := map[*ssa.Global]int{}
	bad := map[*ssa.Global]bool{}
	for fn := range ssautil.AllFunctions(w.prog) {
		for _, b := range fn.Blocks {
			for _, in := range b.Instrs {
				if st, ok := in.(*ssa.Store); ok {
					if g, ok := st.Addr.(*ssa.Global); ok {
						stores[g]++
						if fn.Name() != "init" {
							bad[g] = true
						}
					}
				}
				// address taken for other purposes
				for _, op := range in.Operands(nil) {
					if g, ok := (*op).(*ssa.Global); ok {
						switch i2 := in.(type) {
						case *ssa.Store:
							if i2.Addr == g {
								continue
							}
							bad[g] = true
						case *ssa.UnOp:
						case *ssa.DebugRef:
						default:
							bad[g] = true
						}
					}
				}
			}
		}
	}
	for _, p := range w.prog.AllPackages() {
		for _, m := range p.Members {
			if g, ok := m.(*ssa.Global); ok {
				t := g.Type().(*types.Pointer).Elem()
				if isErrorLike(t) && stores[g] == 1 && !bad[g] && strings.HasPrefix(g.Name(), "Err") {
					w.sentinels[g] = true
				}
			}
		}
	}
}

func (w *World) isSentinel(g *ssa.Global) bool { return w.sentinels[g] }

func (w *World) inRepo(fn *ssa.Function) bool {
	p := fn.Pkg
	if p == nil && fn.Parent() != nil {
		p = fn.Parent().Pkg
	}
	if p == nil {
		if fn.Object() != nil && fn.Object().Pkg() != nil {
			return strings.HasPrefix(fn.Object().Pkg().Path(), repoMod)
		}
		return false
	}
	return strings.HasPrefix(p.Pkg.Path(), repoMod) && !strings.Contains(p.Pkg.Path(), "/vendor/")
}

// inlineOK: a few tiny standard-library functions that are exact to inline.
// Loop-free functions of a few small standard-library packages are executed from their real
// source (loaded with the program) instead of being given assumed contracts.
func (w *World) inlineOK(full string) bool {
	for _, p := range []string{"(*bytes.Buffer).", "(encoding/binary.littleEndian).", "(*encoding/base64.Encoding).DecodedLen", "(*encoding/base64.Encoding).EncodedLen",
		"bytes.NewBuffer", "encoding/base64.decodedLen", "encoding/base64.encodedLen"} {
		if strings.HasPrefix(full, p) {
			return true
		}
	}
	return false
}

// ---------------------------------------------------------------------------

type FnResult struct {
	Key     string
	Obls    []*Obligation
	Trusted []string
	Err     error
	Used    []string // contracts of callees used modularly
	Lines   int
}

func newExec(w *World, fn *ssa.Function, key string, props []string, discover bool) *Exec {
	wrapCounter = 0
	x := &Exec{w: w, em: NewEmitter(), top: fn, trusted: map[string]bool{}, discover: discover,
		loopMods: map[*ssa.BasicBlock]map[string]bool{}, strConst: map[string]string{}, sumFns: map[string]string{},
		typeTags: map[string]int{}, ordinals: map[string]int{}, props: props, fnKey: key, sumInst: map[string]bool{},
		usedContracts: map[string]bool{}, loopRoots: map[*ssa.BasicBlock]map[string][]ssa.Value{}, opaque: map[string]*opaqueInfo{}, bindFail: map[string]bool{}, guardsSeen: map[string]bool{}, resTypes: map[string]types.Type{}, closuresSeen: map[string]bool{}}
	return x
}

// scanResultTypes records the result type of every call in fn by callee name, so that
// resultof(Name, i) is typed on paths that return before the call (there it denotes an
// unconstrained value).
func (x *Exec) scanResultTypes(fn *ssa.Function) {
	for _, b := range fn.Blocks {
		for _, in := range b.Instrs {
			ci, ok := in.(ssa.CallInstruction)
			if !ok {
				continue
			}
			cc := ci.Common()
			if _, isB := cc.Value.(*ssa.Builtin); isB {
				continue
			}
			var rt types.Type = cc.Signature().Results()
			if cc.Signature().Results().Len() == 1 {
				rt = cc.Signature().Results().At(0).Type()
			} else if cc.Signature().Results().Len() == 0 {
				continue
			}
			name, qual := callNames(cc)
			for _, n := range []string{name, qual} {
				if n != "" {
					if _, have := x.resTypes[n]; !have {
						x.resTypes[n] = rt
					}
				}
			}
		}
	}
}

func callNames(cc *ssa.CallCommon) (name, qual string) {
	if cc.IsInvoke() {
		name = cc.Method.Name()
		if n, ok := cc.Value.Type().(*types.Named); ok {
			qual = n.Obj().Name() + "." + name
		}
	} else if f := cc.StaticCallee(); f != nil {
		name = f.Name()
		if recv := f.Signature.Recv(); recv != nil {
			t := recv.Type()
			if p, ok := t.(*types.Pointer); ok {
				t = p.Elem()
			}
			if n, ok := t.(*types.Named); ok {
				qual = n.Obj().Name() + "." + name
			}
		}
	}
	return
}

// verifyFunc generates the obligations of one function under contract.
func (w *World) verifyFunc(c *Contract) (res *FnResult) {
	res = &FnResult{Key: c.Key}
	fn := w.funcs[c.Key]
	if fn == nil {
		res.Err = fmt.Errorf("contract-binding: function %s not found", c.Key)
		return
	}
	if fn.Blocks == nil {
		res.Err = fmt.Errorf("contract-binding: function %s has no body", c.Key)
		return
	}
	defer func() {
		if r := recover(); r != nil {
			switch e := r.(type) {
			case Unsupported:
				res.Err = fmt.Errorf("unsupported in %s: %s", c.Key, e.Msg)
			case specFail:
				res.Err = fmt.Errorf("contract-binding in %s: %s", c.Key, e.msg)
			default:
				panic(r)
			}
		}
	}()
	// pass 1: discover loop modification sets
	d := newExec(w, fn, c.Key, c.Props, true)
	d.scanResultTypes(fn)
	d.runTop(fn, c)
	// pass 2
	x := newExec(w, fn, c.Key, c.Props, false)
	x.loopMods = d.loopMods
	x.loopRoots = d.loopRoots
	x.scanResultTypes(fn)
	x.runTop(fn, c)
	for _, g := range c.Guards {
		if !x.guardsSeen[g.Name] {
			// the guarded call is gone: the guard can no longer be established
			x.bindFail["guard["+g.Name+"] of "+c.Key+" matches no call site"] = true
			nm := c.Key + "#guard:" + g.Name
			if g.Label != "" {
				nm += ":" + g.Label
			}
			x.obls = append(x.obls, &Obligation{Name: nm + "#missing", Kind: "guard", Fn: c.Key, Props: c.Props, Pos: x.em.Mark(),
				Goal: "true", Expect: "unsat", Clause: g.Src + "   [no call of " + g.Name + " in the function any more]", em: x.em, Only: g.Only,
				Result: "unknown", Solver: "syntactic", Output: "the guarded call site no longer exists"})
		}
	}
	res.Obls = x.obls
	for t := range x.trusted {
		res.Trusted = append(res.Trusted, t)
	}
	for b := range x.bindFail {
		res.Trusted = append(res.Trusted, "BINDING-FAILURE: "+b)
		fmt.Println("BINDING-FAILURE:", b)
	}
	sort.Strings(res.Trusted)
	for u := range x.usedContracts {
		res.Used = append(res.Used, u)
	}
	sort.Strings(res.Used)
	res.Lines = len(x.em.Lines)
	return
}

func (x *Exec) runTop(fn *ssa.Function, c *Contract) {
	fr := x.newFrame(fn, c, false, "")
	fr.entry = x.newHeap()
	fr.cur = fr.entry
	fr.curReach = "true"
	// allocation counter
	a0 := x.heapGet(fr.entry, allocName, "Int")
	x.em.Assert(sLe("0", a0))
	// parameters
	for _, p := range fn.Params {
		v := fr.freshVal("p."+p.Name(), p.Type())
		fr.vals[p] = v
		fr.params[p.Name()] = v
		fr.assumeAllocated(v, a0)
	}
	for _, p := range fn.FreeVars {
		v := fr.freshVal("fv."+p.Name(), p.Type())
		fr.vals[p] = v
		fr.params[p.Name()] = v
		fr.assumeAllocated(v, a0)
		// go/ssa captures variables by reference: the free variable is the address of the
		// captured variable, which exists (non-nil); in specs the name denotes the variable
		if pt, ok := p.Type().Underlying().(*types.Pointer); ok && v.Term != "" {
			x.em.Assert(sLt("0", v.Term))
			fr.params[p.Name()] = lv(&Loc{Kind: LRef, Base: v.Term, Root: pt.Elem(), T: pt.Elem()})
		}
	}
	// implicit: pointer receiver non-nil
	if fn.Signature.Recv() != nil && len(fn.Params) > 0 && kindOf(fn.Params[0].Type()) == KPtr && !c.NilRecvOK {
		x.em.Assert(sLt("0", fr.vals[fn.Params[0]].Term))
	}
	// a closure's contract may mention its creator's parameters: rigid, otherwise unknown values
	if par := fn.Parent(); par != nil {
		for _, p := range par.Params {
			if _, have := fr.params[p.Name()]; !have {
				v := fr.freshVal("creator."+p.Name(), p.Type())
				fr.assumeAllocated(v, a0)
				fr.params[p.Name()] = v
			}
		}
	}
	env := fr.newEnv()
	env.contract = c
	for _, cl := range c.Requires {
		x.em.Assert(fr.evalBool(cl.Expr, env))
	}
	if len(c.Captures) > 0 {
		// proved where the closure is created (obligations "closure-pre" of the creator)
		var pc *Contract
		if fn.Parent() != nil {
			pc = x.w.contracts[funcKey(fn.Parent())]
		}
		if pc == nil {
			fr.oblige("closure-pre", "creator-not-under-contract", "false", "captures clauses need a contract on the creating function")
		}
		for _, cl := range c.Captures {
			// (a clause that no longer binds is not assumed; evalGuard records the failure)
			if t := fr.evalGuard(cl, env); t != "false" {
				x.em.Assert(t)
			}
		}
	}
	// vacuity guard, cheap part: the preconditions (and capture facts) themselves are satisfiable.
	// (cover:return below needs the whole function's assumptions and is often undecided within
	// its small budget; a contradictory requires clause is caught here in any case)
	if !x.discover && (len(c.Requires) > 0 || len(c.Captures) > 0) {
		x.obls = append(x.obls, &Obligation{Name: x.fnKey + "#cover:requires", Kind: "cover", Fn: x.fnKey, Props: x.props,
			Pos: x.em.Mark(), Goal: "true", Expect: "sat", em: x.em})
	}
	rc := &ReplayCtx{fn: fn, entry: fr.entry, x: x}
	for _, p := range fn.Params {
		rc.params = append(rc.params, fr.vals[p])
		rc.names = append(rc.names, p.Name())
	}
	x.replayCtx = rc
	x.stack = []*ssa.Function{fn}
	fr.run()
	// vacuity guard: some return must be reachable under the assumptions
	if !x.discover {
		var rs []string
		for _, r := range fr.rets {
			rs = append(rs, r.reach)
		}
		if len(rs) > 0 {
			x.obls = append(x.obls, &Obligation{Name: x.fnKey + "#cover:return", Kind: "cover", Fn: x.fnKey, Props: x.props,
				Pos: x.em.Mark(), Goal: sOr(rs...), Expect: "sat", em: x.em})
		}
	}
}

// assumeAllocated: every reference in a parameter is below the allocation counter.
func (fr *Frame) assumeAllocated(v *SVal, a0 string) {
	for _, l := range v.flat() {
		switch kindOf(l.T) {
		case KPtr, KMap:
			if l.Term != "" {
				fr.x.em.Assert(sLe(l.Term, a0))
			}
		}
	}
	fr.allocSlices(v, a0)
}

func (fr *Frame) allocSlices(v *SVal, a0 string) {
	if v.F == nil {
		return
	}
	if kindOf(v.T) == KSlice {
		fr.x.em.Assert(sLe(v.F[0].Term, a0))
		return
	}
	for _, f := range v.F {
		fr.allocSlices(f, a0)
	}
}

func (fr *Frame) evalInvariant(inv *Clause, header *ssa.BasicBlock, heap *HeapState) (res string) {
	env := fr.newEnv()
	env.heap = heap
	env.header = header
	env.contract = fr.contract
	// A loop invariant that no longer binds (a local it names is gone) is dropped rather than
	// aborting the run: the obligations that needed it then fail and are reported, with the
	// binding failure recorded in the trusted-base/notes of the evidence.
	defer func() {
		if r := recover(); r != nil {
			sf, ok := r.(specFail)
			if !ok {
				panic(r)
			}
			fr.x.bindFail["loop invariant of "+fr.x.fnKey+" does not bind: "+sf.msg+" ("+inv.Src+")"] = true
			res = "true"
		}
	}()
	return fr.evalBool(inv.Expr, env)
}

// checkPost emits post and frame obligations at a return.
func (fr *Frame) checkPost(vs []*SVal) {
	c := fr.contract
	if c == nil {
		return
	}
	x := fr.x
	env := fr.newEnv()
	env.contract = c
	var rv *SVal
	rs := fr.fn.Signature.Results()
	if rs.Len() == 1 {
		rv = vs[0]
	} else if rs.Len() > 1 {
		rv = &SVal{T: rs, F: vs}
	}
	if rv != nil {
		bindResults(env, fr.fn, rv)
	}
	for _, h := range c.Hints {
		func() {
			// a hint may mention locals that do not exist yet at an early return: skip it there
			defer func() {
				if r := recover(); r != nil {
					sf, ok := r.(specFail)
					if !ok {
						panic(r)
					}
					if os.Getenv("GOVC_DEBUG") != "" && !x.discover {
						fmt.Fprintf(os.Stderr, "hint skipped at a return of %s: %s\n", x.fnKey, sf.msg)
					}
				}
			}()
			henv := *env
			henv.inHint = true
			henv.at = fr.curBlock
			fr.assume(fr.evalBool(h.Expr, &henv))
		}()
	}
	x.curRets = vs
	for i, cl := range c.Ensures {
		fr.oblige("post", cl.label(i), fr.evalPostClause(cl, env), cl.Src)
	}
	for i, cl := range c.Checks {
		cenv := *env
		cenv.at = fr.curBlock
		cenv.freshUnknown = true
		// (a check that no longer binds - it names a call that is gone - fails)
		fr.oblige("post", "check:"+cl.label(i), fr.evalCheckClause(cl, &cenv), cl.Src)
	}
	x.curRets = nil
	if c.HasModifies && !c.ModifiesAll {
		allowed := map[string]bool{allocName: true}
		cells := map[string][]string{} // heap -> cells that may change ("" entry: anywhere)
		oenv := *env
		oenv.heap = fr.entry // modifies items are evaluated in the pre-state
		for _, m := range c.Modifies {
			cell := fr.modCell(m, &oenv)
			for _, n := range fr.resolveModifies(m, &oenv) {
				if cell == "" {
					allowed[n] = true
				} else {
					cells[n] = append(cells[n], cell)
				}
			}
		}
		if fr.cur.epoch != fr.entry.epoch {
			fr.oblige("frame", "havoc", "false", "an unmodelled call may modify anything")
			return
		}
		a0 := x.heapGet(fr.entry, allocName, "Int")
		var names []string
		for n := range fr.cur.m {
			names = append(names, n)
		}
		sort.Strings(names)
		for _, n := range names {
			if allowed[n] || strings.HasPrefix(n, "$") {
				// ($...: ghost state of the generator, not program state)
				continue
			}
			srt := fr.cur.sorts[n]
			t0 := x.heapGet(fr.entry, n, srt)
			t1 := fr.cur.m[n]
			if t0 == t1 {
				continue
			}
			var cond string
			if strings.HasPrefix(n, "G:") {
				cond = sEq(t0, t1)
			} else {
				guard := []string{sLe("r", a0)}
				for _, cl := range cells[n] {
					guard = append(guard, sNot(sEq("r", cl)))
				}
				cond = "(forall ((r Int)) (=> " + sAnd(guard...) + " (= (select " + t1 + " r) (select " + t0 + " r))))"
			}
			fr.oblige("frame", n, cond, "modifies clause does not list "+n)
		}
	}
}

// evalPostClause evaluates an ensures clause at a return. A clause "A ==> B" whose consequent
// names a local that does not exist yet at this return (an early exit) is replaced by the
// stronger "!A": the return must then be one at which the antecedent is false.
func (fr *Frame) evalPostClause(cl *Clause, env *SpecEnv) (cond string) {
	if cl.Expr.Op != "==>" {
		return fr.evalBool(cl.Expr, env)
	}
	mark := fr.x.em.Mark()
	defer func() {
		if r := recover(); r != nil {
			sf, ok := r.(specFail)
			if !ok || !strings.Contains(sf.msg, "unknown identifier") {
				panic(r)
			}
			_ = mark
			cond = sNot(fr.evalBool(cl.Expr.Args[0], env))
		}
	}()
	return fr.evalBool(cl.Expr, env)
}

// evalCheckClause evaluates a check clause at a return. "A ==> B" whose consequent does not
// bind at this return (it names a local or a call that does not exist on this path) becomes
// the stronger "!A"; any other clause that does not bind fails.
func (fr *Frame) evalCheckClause(cl *Clause, env *SpecEnv) (cond string) {
	if cl.Expr.Op != "==>" {
		return fr.evalGuard(cl, env)
	}
	defer func() {
		if r := recover(); r != nil {
			if _, ok := r.(specFail); !ok {
				panic(r)
			}
			cond = fr.evalGuard(&Clause{Name: cl.Name, Label: cl.Label, Only: cl.Only, Expr: &Node{Op: "!", Args: []*Node{cl.Expr.Args[0]}}, Src: cl.Src}, env)
		}
	}()
	return fr.evalBool(cl.Expr, env)
}

// modCell: for a modifies item, the single cell (ref / backing array / map) of each heap that
// may change; "" when the whole heap may change.
func (fr *Frame) modCell(m *Node, env *SpecEnv) string {
	if m.Op == "call" && m.Args[0].Op == "id" {
		switch m.Args[0].Name {
		case "elems":
			v := env.force(env.eval(m.Args[1]))
			if kindOf(v.T) == KSlice {
				return v.F[0].Term
			}
		case "mapof":
			v := env.force(env.eval(m.Args[1]))
			return v.Term
		case "pointee":
			if loc := fr.pointeeLoc(m, env); loc != nil && loc.Kind == LRef {
				return loc.Base
			}
		}
		return ""
	}
	v := env.eval(m)
	if v.LV && v.Loc.Kind == LRef {
		return v.Loc.Base
	}
	return ""
}

// pointeeLoc: the location an interface-wrapped or plain pointer argument points to.
func (fr *Frame) pointeeLoc(m *Node, env *SpecEnv) *Loc {
	v := env.force(env.eval(m.Args[1]))
	if v.Pointee != nil {
		return v.Pointee
	}
	if kindOf(v.T) == KPtr {
		if v.Loc != nil {
			return v.Loc
		}
		if pt, ok := v.T.Underlying().(*types.Pointer); ok {
			return &Loc{Kind: LRef, Base: v.Term, Root: pt.Elem(), T: pt.Elem()}
		}
	}
	return nil
}

// resolveModifies maps a modifies item to heap names.
func (fr *Frame) resolveModifies(m *Node, env *SpecEnv) []string {
	var out []string
	if m.Op == "call" && m.Args[0].Op == "id" {
		switch m.Args[0].Name {
		case "heap":
			for _, a := range m.Args[1:] {
				out = append(out, a.Name)
			}
			return out
		case "elems":
			v := env.force(env.eval(m.Args[1]))
			for _, eh := range elemHeaps(elemType(v.T)) {
				out = append(out, eh.name)
				fr.cur.sorts[eh.name] = eh.sort
			}
			return out
		case "pointee":
			loc := fr.pointeeLoc(m, env)
			if loc == nil {
				sfail("modifies pointee(%s): the argument's target is not statically known", m.Args[1])
			}
			for _, lf := range leavesOf(loc.T) {
				n, inner := loc.heapFor(lf.Path)
				out = append(out, n)
				if len(inner) == 0 {
					fr.cur.sorts[n] = heapSort(loc.Kind, lf.Sort)
				}
			}
			return out
		case "mapof":
			v := env.force(env.eval(m.Args[1]))
			mh := fr.mapInfo(v.T)
			out = append(out, mh.dom, mh.ln)
			fr.cur.sorts[mh.dom] = mh.domS
			fr.cur.sorts[mh.ln] = "(Array Int Int)"
			for _, l := range mh.valLeaves {
				out = append(out, mh.valHeapName(l))
				fr.cur.sorts[mh.valHeapName(l)] = mh.valSort(l)
			}
			return out
		}
	}
	v := env.eval(m)
	if !v.LV {
		sfail("modifies item %s is not a location", m)
	}
	for _, lf := range leavesOf(v.T) {
		n, inner := v.Loc.heapFor(lf.Path)
		out = append(out, n)
		if len(inner) == 0 {
			fr.cur.sorts[n] = heapSort(v.Loc.Kind, lf.Sort)
		}
	}
	return out
}

// ---------------------------------------------------------------------------
// special externals

func (fr *Frame) special(fn *ssa.Function, full string, args []*SVal, rt types.Type, res ssa.Value) bool {
	x := fr.x
	switch full {
	case "errors.New", "fmt.Errorf":
		fr.setResult(res, fr.newFreshError(fn.Name()))
		return true
	case "fmt.Sprintf", "fmt.Sprint", "fmt.Sprintln", "strconv.Itoa", "strconv.FormatUint", "strconv.FormatInt", "encoding/hex.EncodeToString":
		x.trust("string formatting returns an arbitrary string: " + full)
		fr.setResult(res, fr.freshVal("fmt", rt))
		return true
	case "time.Now", "(time.Time).Unix", "(time.Time).UnixNano", "time.Since", "(time.Time).Sub", "(time.Time).UTC", "time.Unix", "(time.Time).Add", "(time.Time).Before", "(time.Time).After":
		x.trust("clock values are arbitrary: " + full)
		fr.setResult(res, fr.freshVal("time", rt))
		return true
	case "bytes.Equal":
		a, b := args[0], args[1]
		f := x.em.Func("bytesEqual", []string{"(Array Int Int)", "Int", "Int", "(Array Int Int)", "Int", "Int"}, "Bool")
		h := x.heapGet(fr.cur, "HA:uint8", heapSort(LElem, "Int"))
		ra, rb := sSelect(h, a.F[0].Term), sSelect(h, b.F[0].Term)
		r := x.em.Def("bytesEqual", "Bool", sApp(f, ra, a.F[1].Term, a.F[2].Term, rb, b.F[1].Term, b.F[2].Term))
		// equal <=> same length and same contents
		x.em.Assert(sEq(r, sAnd(sEq(a.F[2].Term, b.F[2].Term),
			fmt.Sprintf("(forall ((j Int)) (=> (and (<= 0 j) (< j %s)) (= (select %s (+ %s j)) (select %s (+ %s j)))))", a.F[2].Term, ra, a.F[1].Term, rb, b.F[1].Term))))
		fr.setResult(res, leaf(rt, r))
		return true
	}
	return false
}

// isErrorLike: the error interface or a named interface type whose method set is that of error
// (e.g. gnet.DisconnectReason).
func isErrorLike(t types.Type) bool {
	if isErrorType(t) {
		return true
	}
	it, ok := t.Underlying().(*types.Interface)
	if !ok {
		return false
	}
	return types.Identical(it, types.Universe.Lookup("error").Type().Underlying())
}
