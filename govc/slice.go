package main

import (
	"regexp"
	"strings"
)

var (
	declRe  = regexp.MustCompile(`^\((?:declare-fun|declare-const) (\|[^|]*\||\S+)`)
	tokRe   = regexp.MustCompile(`\|[^|]*\||[^\s()]+`)
	defEqRe = regexp.MustCompile(`^\(assert \(= (\|[^|]*\||\S+) `)
)

func isCtrlSym(s string) bool {
	s = strings.TrimPrefix(s, "|")
	return strings.HasPrefix(s, "reach.") || strings.HasPrefix(s, "cond.")
}

// sliceQuery returns the query with only the assertions relevant to the goal (the last
// assertion): those that share a non-control symbol with the goal, transitively for `depth`
// rounds; an assertion "(= name term)" defining a named term is included exactly when the name
// is needed. Declarations are kept. The result has fewer assumptions than the input, never
// different ones. Returns "" if nothing would be dropped.
func sliceQuery(text string, depth int) string { return sliceQueryTol(text, depth, 0) }

// sliceQueryTol: with tol > 0 an assertion joins the slice only through one of its trigger
// symbols - its rarest data symbols, those occurring in at most tol times as many assertions as
// its rarest one (the SInE axiom-selection rule of large-theory provers): a hypothesis that
// merely mentions a ubiquitous heap or parameter is left out. Sound for the same reason as the
// plain slice: assumptions are only dropped, and only `unsat` is taken from a slice.
func sliceQueryTol(text string, depth int, tol float64) string {
	lines := strings.Split(text, "\n")
	decl := map[string]bool{}
	for _, l := range lines {
		if m := declRe.FindStringSubmatch(l); m != nil {
			decl[m[1]] = true
		}
	}
	type as struct {
		idx  int
		syms map[string]bool
	}
	var asserts []*as
	byIdx := map[int]*as{}
	for i, l := range lines {
		if !strings.HasPrefix(l, "(assert ") {
			continue
		}
		a := &as{idx: i, syms: map[string]bool{}}
		for _, t := range tokRe.FindAllString(l, -1) {
			if decl[t] {
				a.syms[t] = true
			}
		}
		asserts = append(asserts, a)
		byIdx[i] = a
	}
	if len(asserts) < 2 {
		return ""
	}
	goal := asserts[len(asserts)-1]
	defs := map[string]int{}
	isDef := map[int]bool{}
	for _, a := range asserts[:len(asserts)-1] {
		if m := defEqRe.FindStringSubmatch(lines[a.idx]); m != nil && decl[m[1]] {
			if _, have := defs[m[1]]; !have {
				defs[m[1]] = a.idx
				isDef[a.idx] = true
			}
		}
	}
	occ := map[string]int{}
	for _, a := range asserts {
		for s := range a.syms {
			occ[s]++
		}
	}
	trigger := func(a *as) map[string]bool {
		if tol <= 0 {
			return a.syms
		}
		min := 0
		for s := range a.syms {
			if !isCtrlSym(s) && (min == 0 || occ[s] < min) {
				min = occ[s]
			}
		}
		t := map[string]bool{}
		for s := range a.syms {
			if !isCtrlSym(s) && float64(occ[s]) <= tol*float64(min) {
				t[s] = true
			}
		}
		return t
	}
	cone := map[string]bool{}
	inc := map[int]bool{goal.idx: true}
	for s := range goal.syms {
		cone[s] = true
	}
	closeDefs := func() {
		for changed := true; changed; {
			changed = false
			for s := range cone {
				if di, ok := defs[s]; ok && !inc[di] {
					inc[di] = true
					for t := range byIdx[di].syms {
						if !cone[t] {
							cone[t] = true
						}
					}
					changed = true
				}
			}
		}
	}
	closeDefs()
	if tol > 0 {
		// the allocation-order skeleton (short ground facts about the allocation counter and
		// fresh references) is always kept: non-aliasing arguments need the whole chain, and no
		// link of it is rare-symbol-relevant to a goal about contents
		for _, a := range asserts {
			l := lines[a.idx]
			if !inc[a.idx] && len(l) <= 160 && !strings.Contains(l, "(forall ") && (strings.Contains(l, "$alloc") || strings.HasPrefix(l, "(assert (= ref.")) {
				inc[a.idx] = true
			}
		}
	}
	for d := 0; d < depth; d++ {
		var add []*as
		for _, a := range asserts {
			if inc[a.idx] || isDef[a.idx] {
				continue
			}
			for s := range trigger(a) {
				if !isCtrlSym(s) && cone[s] {
					add = append(add, a)
					break
				}
			}
		}
		if len(add) == 0 {
			break
		}
		for _, a := range add {
			inc[a.idx] = true
			for s := range a.syms {
				cone[s] = true
			}
		}
		closeDefs()
	}
	if len(inc) >= len(asserts) {
		return ""
	}
	var b strings.Builder
	for i, l := range lines {
		if strings.HasPrefix(l, "(assert ") && !inc[i] {
			continue
		}
		b.WriteString(l)
		b.WriteByte('\n')
	}
	return b.String()
}
