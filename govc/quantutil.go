package main

import "strings"

// hasOuterQuant: is the environment inside the body of an enclosing quantifier (one of its
// variables is a quantifier-bound variable)?
func hasOuterQuant(e *SpecEnv) bool {
	for _, v := range e.vars {
		if v != nil && v.F == nil && strings.Contains(v.Term, "!q") && len(v.Term) < 40 {
			return true
		}
	}
	return false
}

// refTerms lists the reference-valued leaves of v (pointers, maps, slice backing arrays).
func refTerms(v *SVal) []string {
	var out []string
	var rec func(v *SVal)
	rec = func(v *SVal) {
		if v == nil {
			return
		}
		switch kindOf(v.T) {
		case KSlice:
			if v.F != nil && v.F[0].Term != "" {
				out = append(out, v.F[0].Term)
			}
			return
		case KPtr, KMap:
			if v.Term != "" {
				out = append(out, v.Term)
			}
			return
		}
		for _, f := range v.F {
			rec(f)
		}
	}
	rec(v)
	return out
}

// mapValuesAllocated: an allocated map holds no references to objects not yet allocated
// (the counterpart, for map values, of the fact assumed for every loaded reference).
func (fr *Frame) mapValuesAllocated(h *HeapState, m *SVal) {
	x := fr.x
	if m.Term == "" || hasBound(m.Term) {
		return
	}
	mh := fr.mapInfo(m.T)
	al := x.heapGet(h, allocName, "Int")
	for _, l := range mh.valLeaves {
		isRef := false
		switch kindOf(l.T) {
		case KPtr, KMap:
			isRef = true
		}
		if len(l.Path) > 0 && l.Path[len(l.Path)-1] == "#arr" {
			isRef = true
		}
		if !isRef {
			continue
		}
		hv := x.heapGet(h, mh.valHeapName(l), mh.valSort(l))
		key := "mva|" + hv + "|" + m.Term + "|" + al
		if x.idxConst == nil {
			x.idxConst = map[string]string{}
		}
		if _, done := x.idxConst[key]; done {
			continue
		}
		x.idxConst[key] = "done"
		row := "(select " + hv + " " + m.Term + ")"
		x.em.Assert("(=> (<= " + m.Term + " " + al + ") (forall ((k!mva " + mh.kSort + ")) (! (<= (select " + row + " k!mva) " + al + ") :pattern ((select " + row + " k!mva)))))")
	}
}
