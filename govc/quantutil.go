package main

import "strings"

// hasOuterQuant: is the environment inside the body of an enclosing quantifier (one of its
// variables is a quantifier-bound variable)?
func hasOuterQuant(e *SpecEnv) bool {
	for _, v := range e.vars {
		if v != nil && v.F == nil && strings.Contains(v.Term, "!q") && len(v.Term) < 40 {
			return true
		}
	}
	return false
}
