package main

import "strings"

// hasOuterQuant: is the environment inside the body of an enclosing quantifier (one of its
// variables is a quantifier-bound variable)?
func hasOuterQuant(e *SpecEnv) bool {
	for _, v := range e.vars {
		if v != nil && v.F == nil && strings.Contains(v.Term, "!q") && len(v.Term) < 40 {
			return true
		}
	}
	return false
}

// refTerms lists the reference-valued leaves of v (pointers, maps, slice backing arrays).
func refTerms(v *SVal) []string {
	var out []string
	var rec func(v *SVal)
	rec = func(v *SVal) {
		if v == nil {
			return
		}
		switch kindOf(v.T) {
		case KSlice:
			if v.F != nil && v.F[0].Term != "" {
				out = append(out, v.F[0].Term)
			}
			return
		case KPtr, KMap:
			if v.Term != "" {
				out = append(out, v.Term)
			}
			return
		}
		for _, f := range v.F {
			rec(f)
		}
	}
	rec(v)
	return out
}
