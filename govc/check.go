package main

import (
	"encoding/json"
	"flag"
	"fmt"
	"os"
	"path/filepath"
	"regexp"
	"sort"
	"strconv"
	"strings"
	"time"
)

type KnownFinding struct {
	Property    string `json:"property"`
	Obligation  string `json:"obligation"` // regular expression over obligation names
	ID          string `json:"id"`
	Description string `json:"description"`
	Witness     string `json:"witness,omitempty"`
}

type KnownFile struct {
	Findings []KnownFinding `json:"findings"`
	Fixed    []string       `json:"fixed"`
}

func loadKnown(path string) *KnownFile {
	kf := &KnownFile{}
	b, err := os.ReadFile(path)
	if err != nil {
		return kf
	}
	if err := json.Unmarshal(b, kf); err != nil {
		fmt.Fprintln(os.Stderr, "known_findings.json:", err)
		os.Exit(2)
	}
	return kf
}

type oblRecord struct {
	Name    string  `json:"name"`
	Result  string  `json:"result"`
	Solver  string  `json:"solver"`
	Seconds float64 `json:"seconds"`
	Bytes   int     `json:"smt_bytes"`
	Clause  string  `json:"clause,omitempty"`
}

func hasProp(ps []string, p string) bool {
	for _, x := range ps {
		if x == p {
			return true
		}
	}
	return false
}

func cmdCheck(args []string) int {
	fs := flag.NewFlagSet("check", flag.ExitOnError)
	root := fs.String("root", "/repo", "repository root")
	tier := fs.String("tier", "quick", "quick or thorough")
	verif := fs.String("verif", "/verif", "verif directory")
	nocache := fs.Bool("nocache", false, "ignore the solver-result cache")
	var prop string
	if len(args) > 0 && !strings.HasPrefix(args[0], "-") {
		prop = args[0]
		args = args[1:]
	}
	fs.Parse(args)
	if prop == "" && fs.NArg() > 0 {
		prop = fs.Arg(0)
	}
	if prop == "" {
		fmt.Fprintln(os.Stderr, "usage: govc check <PROP> [--tier quick|thorough]")
		return 2
	}
	if t := os.Getenv("VERIF_TIER"); t != "" && *tier == "quick" {
		*tier = t
	}
	seed := 0
	if s := os.Getenv("VERIF_SEED"); s != "" {
		seed, _ = strconv.Atoi(s)
	}
	start := time.Now()
	evPath := filepath.Join(*verif, "evidence", prop+".json")
	os.MkdirAll(filepath.Dir(evPath), 0o755)
	os.Remove(evPath)

	undecided := func(reason string) int {
		fmt.Printf("UNDECIDED property=%s reason=%s\n", prop, reason)
		return 2
	}

	cs, err := loadContracts(*root)
	if err != nil {
		return undecided("contract-parse " + err.Error())
	}
	var todo []*Contract
	for _, c := range cs.byKey {
		if hasProp(c.Props, prop) && !c.Extern {
			todo = append(todo, c)
		}
	}
	var lemmas []*Lemma
	for _, l := range cs.lemmas {
		if hasProp(l.Props, prop) {
			lemmas = append(lemmas, l)
		}
	}
	if len(todo) == 0 && len(lemmas) == 0 {
		return undecided("no-contracts-for-property")
	}
	sort.Slice(todo, func(i, j int) bool { return todo[i].Key < todo[j].Key })
	// packages: those of the tagged contracts and lemmas
	pats := pkgPatternsFor(todo)
	for _, l := range lemmas {
		p := "./src/" + l.Pkg
		found := false
		for _, q := range pats {
			if q == p {
				found = true
			}
		}
		if !found {
			pats = append(pats, p)
		}
	}
	tLoad := time.Now()
	w, err := loadWorld(*root, pats, nil)
	if err != nil {
		return undecided("load " + err.Error())
	}
	loadS := time.Since(tLoad).Seconds()

	// generate obligations over the cone
	var all []*Obligation
	var results []*FnResult
	done := map[string]bool{}
	trusted := map[string]bool{}
	var assumedFns []string
	queue := append([]*Contract{}, todo...)
	tGen := time.Now()
	for len(queue) > 0 {
		c := queue[0]
		queue = queue[1:]
		if done[c.Key] {
			continue
		}
		done[c.Key] = true
		if c.Assumed {
			assumedFns = append(assumedFns, c.Key)
			continue
		}
		r := w.verifyFunc(c)
		if r.Err != nil {
			return undecided(strings.ReplaceAll(r.Err.Error(), "\n", " "))
		}
		results = append(results, r)
		for _, o := range r.Obls {
			// clauses restricted to other properties do not belong to this check
			if len(o.Only) > 0 && !hasProp(o.Only, prop) {
				continue
			}
			all = append(all, o)
		}
		for _, t := range r.Trusted {
			trusted[t] = true
		}
		for _, u := range r.Used {
			if uc := cs.byKey[u]; uc != nil && !done[u] {
				queue = append(queue, uc)
			}
		}
	}
	for _, l := range lemmas {
		r := w.verifyLemma(l)
		if r.Err != nil {
			return undecided(strings.ReplaceAll(r.Err.Error(), "\n", " "))
		}
		results = append(results, r)
		all = append(all, r.Obls...)
		for _, t := range r.Trusted {
			trusted[t] = true
		}
	}
	genS := time.Since(tGen).Seconds()

	timeout := 20 * time.Second
	if *tier == "thorough" {
		// as deep as this machinery goes: every obligation re-decided from scratch (no cache)
		// with twelve times the solver budget
		timeout = 120 * time.Second
		*nocache = true
	}
	cfg := &SolverCfg{Timeout: timeout, CacheDir: filepath.Join(*verif, ".cache"), OutDir: filepath.Join(*verif, ".obligations", prop), NoCache: *nocache, Workers: 12}
	os.RemoveAll(cfg.OutDir)
	tSolve := time.Now()
	solveAll(all, cfg)
	// second chance for undecided obligations: fewer workers, longer timeout (a loaded machine
	// must not turn a slow proof into an alarm)
	var retry []*Obligation
	for _, o := range all {
		if o.Kind != "cover" && (o.Result == "timeout" || o.Result == "unknown") {
			retry = append(retry, o)
		}
	}
	if len(retry) > 0 && len(retry) <= 40 {
		cfg2 := *cfg
		cfg2.Timeout = 2 * timeout
		if cfg2.Timeout > 180*time.Second {
			cfg2.Timeout = 180 * time.Second
		}
		cfg2.Workers = 4
		solveAll(retry, &cfg2)
	}
	solveS := time.Since(tSolve).Seconds()

	known := loadKnown(filepath.Join(*verif, "known_findings.json"))
	var recs []oblRecord
	var proofObls, discharged, covers, coverOK int
	var violations []*Obligation
	var knownHits []string
	vacuous := []string{}
	solverTime := map[string]float64{}
	solverCount := map[string]int{}
	for _, o := range all {
		sname := strings.TrimSuffix(o.Solver, " (cached)")
		solverTime[sname] += o.Seconds
		solverCount[sname]++
		if o.Kind == "cover" {
			covers++
			switch o.Result {
			case "sat":
				coverOK++
			case "unsat":
				vacuous = append(vacuous, o.Name)
			}
			continue
		}
		recs = append(recs, oblRecord{o.Name, o.Result, o.Solver, round3(o.Seconds), o.Bytes, o.Clause})
		if o.Result == "unsat" {
			proofObls++
			discharged++
			continue
		}
		// failed: known finding?
		isKnown := false
		for _, k := range known.Findings {
			if k.Property != prop && k.Property != "*" {
				continue
			}
			re, err := regexp.Compile("^(?:" + k.Obligation + ")$")
			if err != nil {
				return undecided("bad known-finding pattern " + k.Obligation)
			}
			if re.MatchString(o.Name) {
				isKnown = true
				knownHits = append(knownHits, fmt.Sprintf("KNOWN-FINDING: property=%s %s [%s] obligation=%s", prop, k.Description, k.ID, o.Name))
				break
			}
		}
		if isKnown {
			continue
		}
		proofObls++
		violations = append(violations, o)
	}
	if len(vacuous) > 0 {
		return undecided("vacuous-assumptions " + strings.Join(vacuous, ","))
	}
	for _, o := range all {
		if o.Result == "error" || o.Result == "too-large" {
			return undecided("engine-error obligation=" + o.Name + " " + firstLines(o.Output, 2))
		}
	}
	sort.Strings(knownHits)
	for _, k := range dedupeStrings(knownHits) {
		fmt.Println(k)
	}

	// replay / report violations
	exit := 0
	for _, o := range violations {
		exit = 1
		rp := writeReplay(*verif, prop, o, w)
		suffix := ""
		if !rp.Confirmed {
			suffix = " no-failing-input-found"
		}
		fmt.Printf("VIOLATION property=%s replay=%s obligation=%s result=%s%s\n", prop, rp.Path, o.Name, o.Result, suffix)
	}

	// evidence
	var tb []string
	for t := range trusted {
		tb = append(tb, t)
	}
	for _, a := range assumedFns {
		tb = append(tb, "assumed contract (not verified): "+a)
	}
	tb = append(tb, "T1: Go compiler, go/types, go/ssa (x/tools v0.29.0), the SMT solvers and govc itself",
		"T4: termination, memory exhaustion and stack depth are not proved (partial correctness)",
		"T5: slice lengths and capacities are at most 2^56",
		"A-SEQ: sequential reasoning; mutex Lock/Unlock calls are skipped",
		"A-SENTINEL: package-level error variables assigned only in init are immutable, distinct and non-nil")
	sort.Strings(tb)
	tb = dedupeStrings(tb)
	var fns []string
	for _, r := range results {
		fns = append(fns, r.Key)
	}
	sort.Strings(fns)
	samples := []oblRecord{}
	for i, r := range recs {
		if i < 3 || i == len(recs)-1 {
			samples = append(samples, r)
		}
	}
	slow := append([]oblRecord{}, recs...)
	sort.Slice(slow, func(i, j int) bool { return slow[i].Seconds > slow[j].Seconds })
	if len(slow) > 5 {
		slow = slow[:5]
	}
	ev := map[string]interface{}{
		"property_id": prop,
		"tier":        *tier,
		"seed":        seed,
		"level":       "proof",
		"wall_s":      round3(time.Since(start).Seconds()),
		"violations":  len(violations),
		"coverage": map[string]interface{}{
			"obligations":              proofObls,
			"discharged":               discharged,
			"checker_cmd":              fmt.Sprintf("bin/govc check %s --tier %s  (VCs from go/ssa of /repo working tree; solvers z3 4.8.12, z3-new 5.1.0, cvc5 1.0 raced per obligation, timeout %s)", prop, *tier, timeout),
			"trusted_base":             tb,
			"functions_under_contract": fns,
			"assumed_contracts":        assumedFns,
			"cover_checks":             covers,
			"cover_checks_sat":         coverOK,
			"known_findings":           dedupeStrings(knownHits),
			"solver_seconds":           roundMap(solverTime),
			"solver_obligations":       solverCount,
			"load_s":                   round3(loadS),
			"vcgen_s":                  round3(genS),
			"solve_wall_s":             round3(solveS),
			"arith":                    "Go integers encoded as SMT Int with exact wrap-around (mod 2^w) on every + - * and narrowing conversion; spec arithmetic unbounded",
			"samples":                  samples,
			"slowest":                  slow,
			"all_obligations":          recs,
			"bounded_standins":         []string{},
		},
		"assumptions": tb,
	}
	b, _ := json.MarshalIndent(ev, "", " ")
	if err := os.WriteFile(evPath, b, 0o644); err != nil {
		fmt.Fprintln(os.Stderr, err)
		return 2
	}
	fmt.Printf("property=%s tier=%s functions=%d obligations=%d discharged=%d known=%d violations=%d covers=%d/%d wall=%.1fs (load %.1fs gen %.1fs solve %.1fs)\n",
		prop, *tier, len(fns), proofObls, discharged, len(dedupeStrings(knownHits)), len(violations), coverOK, covers, time.Since(start).Seconds(), loadS, genS, solveS)
	return exit
}

func round3(f float64) float64 { return float64(int(f*1000+0.5)) / 1000 }

func roundMap(m map[string]float64) map[string]float64 {
	out := map[string]float64{}
	for k, v := range m {
		out[k] = round3(v)
	}
	return out
}

func dedupeStrings(s []string) []string {
	var out []string
	for i, x := range s {
		if i == 0 || x != s[i-1] {
			out = append(out, x)
		}
	}
	return out
}

type replayInfo struct {
	Path      string
	Confirmed bool
}

// writeReplay records a failed obligation; where the solver produced a model and the
// function's inputs can be rebuilt, the model is replayed on the real code (replay.go).
func writeReplay(verif, prop string, o *Obligation, w *World) replayInfo {
	dir := filepath.Join(verif, "replays", prop)
	os.MkdirAll(dir, 0o755)
	path := filepath.Join(dir, fileSafe(o.Name)+".json")
	rec := map[string]interface{}{
		"property":      prop,
		"obligation":    o.Name,
		"function":      o.Fn,
		"kind":          o.Kind,
		"clause":        o.Clause,
		"solver_result": o.Result,
		"solver":        o.Solver,
		"solver_output": firstN(o.Output, 40),
		"smt_file":      o.File,
	}
	confirmed := false
	if o.Result == "sat" {
		rr := replayOnRealCode(w, o, dir)
		rec["replay"] = rr
		confirmed = rr.Confirmed
	} else {
		rec["replay"] = map[string]interface{}{"confirmed": false, "reason": "solver gave no model (" + o.Result + "); obligation undischarged"}
	}
	b, _ := json.MarshalIndent(rec, "", " ")
	os.WriteFile(path, b, 0o644)
	return replayInfo{path, confirmed}
}
