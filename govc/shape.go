package main

import (
	"fmt"
	"go/types"
	"math/big"
	"strings"

	"golang.org/x/tools/go/ssa"
)

type Kind int

const (
	KInt Kind = iota
	KBool
	KStr
	KPtr
	KArray
	KStruct
	KSlice
	KMap
	KIface
	KFunc
	KTuple
	KChan
	KFloat
	KSpecInt // unbounded spec integer
	KOther
)

// specIntType is the pseudo type of unbounded spec integers.
var specIntType = types.Typ[types.UntypedInt]

func kindOf(t types.Type) Kind {
	if t == specIntType {
		return KSpecInt
	}
	switch u := t.Underlying().(type) {
	case *types.Basic:
		switch {
		case u.Info()&types.IsBoolean != 0:
			return KBool
		case u.Info()&types.IsInteger != 0:
			if u.Kind() == types.UntypedInt || u.Kind() == types.UntypedRune {
				return KSpecInt
			}
			return KInt
		case u.Info()&types.IsString != 0:
			return KStr
		case u.Info()&types.IsFloat != 0:
			return KFloat
		case u.Kind() == types.UnsafePointer:
			return KPtr
		case u.Kind() == types.UntypedNil:
			return KPtr
		}
		return KOther
	case *types.Pointer:
		return KPtr
	case *types.Array:
		return KArray
	case *types.Struct:
		return KStruct
	case *types.Slice:
		return KSlice
	case *types.Map:
		return KMap
	case *types.Interface:
		return KIface
	case *types.Signature:
		return KFunc
	case *types.Tuple:
		return KTuple
	case *types.Chan:
		return KChan
	}
	return KOther
}

// intInfo returns bit width and signedness of an integer type.
func intInfo(t types.Type) (w int, signed bool) {
	b, ok := t.Underlying().(*types.Basic)
	if !ok {
		return 64, true
	}
	switch b.Kind() {
	case types.Int8:
		return 8, true
	case types.Int16:
		return 16, true
	case types.Int32:
		return 32, true
	case types.Int64, types.Int:
		return 64, true
	case types.Uint8:
		return 8, false
	case types.Uint16:
		return 16, false
	case types.Uint32:
		return 32, false
	case types.Uint64, types.Uint, types.Uintptr:
		return 64, false
	}
	return 64, true
}

func intRange(t types.Type) (lo, hi *big.Int) {
	w, s := intInfo(t)
	if s {
		h := pow2(w - 1)
		return new(big.Int).Neg(h), new(big.Int).Sub(h, big.NewInt(1))
	}
	return big.NewInt(0), new(big.Int).Sub(pow2(w), big.NewInt(1))
}

// sortOf gives the SMT sort of a leaf type.
func sortOf(t types.Type) string {
	switch kindOf(t) {
	case KInt, KSpecInt, KPtr, KMap, KIface, KFunc, KChan:
		return "Int"
	case KBool:
		return "Bool"
	case KStr:
		return "Str"
	case KFloat:
		return "Real"
	case KArray:
		a := t.Underlying().(*types.Array)
		if isLeaf(a.Elem()) {
			return "(Array Int " + sortOf(a.Elem()) + ")"
		}
	}
	panic(unsupported("sortOf " + t.String()))
}

func isLeaf(t types.Type) bool {
	switch kindOf(t) {
	case KStruct, KSlice, KTuple:
		return false
	case KArray:
		a := t.Underlying().(*types.Array)
		return isLeaf(a.Elem())
	}
	return true
}

type Unsupported struct{ Msg string }

func (u Unsupported) Error() string { return "unsupported: " + u.Msg }
func unsupported(f string, a ...interface{}) Unsupported {
	return Unsupported{fmt.Sprintf(f, a...)}
}

// SVal is a symbolic Go value.
type SVal struct {
	T    types.Type
	Term string  // leaf term
	F    []*SVal // struct fields, tuple components, or slice header [arr off len cap]
	Loc  *Loc    // statically known location for pointer values (interior or otherwise)
	Fn   *ssa.Function
	Bind []*SVal // closure bindings
	LV   bool    // spec evaluation: denotes the (unread) contents of Loc
	// interface values made from a pointer remember where it points (for `modifies pointee(x)`)
	Pointee *Loc
	// spec-only slice values that stand for the bytes of a string (bytesof(s)): the contents
	// as an SMT array, used when the value is passed to a pure function
	Row string
}

func leaf(t types.Type, term string) *SVal { return &SVal{T: t, Term: term} }

// Leaf describes one scalar component of a (possibly composite) type.
type Leaf struct {
	Path []string // field names; for slices: "#arr" "#off" "#len" "#cap"
	T    types.Type
	Sort string
}

var sliceParts = []string{"#arr", "#off", "#len", "#cap"}
var intType = types.Typ[types.Int]

func leavesOf(t types.Type) []Leaf {
	var out []Leaf
	var rec func(t types.Type, path []string)
	rec = func(t types.Type, path []string) {
		switch kindOf(t) {
		case KStruct:
			st := t.Underlying().(*types.Struct)
			for i := 0; i < st.NumFields(); i++ {
				rec(st.Field(i).Type(), append(append([]string{}, path...), st.Field(i).Name()))
			}
		case KTuple:
			tp := t.(*types.Tuple)
			for i := 0; i < tp.Len(); i++ {
				rec(tp.At(i).Type(), append(append([]string{}, path...), fmt.Sprintf("%d", i)))
			}
		case KSlice:
			for _, p := range sliceParts {
				out = append(out, Leaf{append(append([]string{}, path...), p), intType, "Int"})
			}
		default:
			out = append(out, Leaf{path, t, sortOf(t)})
		}
	}
	rec(t, nil)
	return out
}

// flat returns the leaf values of v in leavesOf order.
func (v *SVal) flat() []*SVal {
	if v.F == nil {
		return []*SVal{v}
	}
	var out []*SVal
	for _, f := range v.F {
		out = append(out, f.flat()...)
	}
	return out
}

// build constructs an SVal of type t from a leaf generator.
func buildVal(t types.Type, gen func(l Leaf) string) *SVal {
	var rec func(t types.Type, path []string) *SVal
	rec = func(t types.Type, path []string) *SVal {
		switch kindOf(t) {
		case KStruct:
			st := t.Underlying().(*types.Struct)
			v := &SVal{T: t, F: []*SVal{}}
			for i := 0; i < st.NumFields(); i++ {
				v.F = append(v.F, rec(st.Field(i).Type(), append(append([]string{}, path...), st.Field(i).Name())))
			}
			return v
		case KTuple:
			tp := t.(*types.Tuple)
			v := &SVal{T: t, F: []*SVal{}}
			for i := 0; i < tp.Len(); i++ {
				v.F = append(v.F, rec(tp.At(i).Type(), append(append([]string{}, path...), fmt.Sprintf("%d", i))))
			}
			return v
		case KSlice:
			v := &SVal{T: t, F: []*SVal{}}
			for _, p := range sliceParts {
				l := Leaf{append(append([]string{}, path...), p), intType, "Int"}
				v.F = append(v.F, leaf(intType, gen(l)))
			}
			return v
		}
		return leaf(t, gen(Leaf{path, t, sortOf(t)}))
	}
	return rec(t, nil)
}

func zeroTerm(t types.Type) string {
	switch kindOf(t) {
	case KBool:
		return "false"
	case KStr:
		return "str.empty"
	case KFloat:
		return "0.0"
	case KArray:
		a := t.Underlying().(*types.Array)
		return "((as const " + sortOf(t) + ") " + zeroTerm(a.Elem()) + ")"
	}
	return "0"
}

func zeroVal(t types.Type) *SVal {
	return buildVal(t, func(l Leaf) string { return zeroTerm(l.T) })
}

// typeKey gives a stable short name for a type, used in heap names.
func typeKey(t types.Type) string {
	s := types.TypeString(t, func(p *types.Package) string { return p.Name() })
	s = strings.NewReplacer(" ", "", "{", "<", "}", ">", ";", ",", "\"", "", "|", "!", "\\", "!").Replace(s)
	return s
}

// ---------------------------------------------------------------------------
// Locations

type LocKind int

const (
	LRef    LocKind = iota // pointee of a Ref; heap family H:<Root>:<fields>
	LElem                  // element of a backing array; heap family HA:<Root>:<fields>
	LGlobal                // package-level variable; family G:<name>:<fields>
)

type PStep struct {
	Field string // field name, or "" for an index step
	Idx   string // index term
}

type Loc struct {
	Kind LocKind
	Base string     // ref term, array-ref term, or global name
	Idx  string     // LElem: absolute index term
	Root types.Type // type stored at the root
	Path []PStep
	T    types.Type // type at the end of the path
}

func (l *Loc) extend(step PStep, t types.Type) *Loc {
	n := *l
	n.Path = append(append([]PStep{}, l.Path...), step)
	n.T = t
	return &n
}

// heapFor computes the heap name and the inner (intra-value) index steps to reach leaf
// `lp` (a field path below l.T).
func (l *Loc) heapFor(lp []string) (name string, inner []string) {
	var fields []string
	i := 0
	for ; i < len(l.Path); i++ {
		if l.Path[i].Field == "" {
			break
		}
		fields = append(fields, l.Path[i].Field)
	}
	for ; i < len(l.Path); i++ {
		if l.Path[i].Field != "" {
			panic(unsupported("field access below an array element inside a struct"))
		}
		inner = append(inner, l.Path[i].Idx)
	}
	if len(inner) > 0 && len(lp) > 0 {
		panic(unsupported("composite array element inside a struct"))
	}
	fields = append(fields, lp...)
	fam := "H"
	root := l.Root
	switch l.Kind {
	case LElem:
		fam = "HA"
	case LGlobal:
		fam = "G:" + l.Base
	case LRef:
		if a, ok := root.Underlying().(*types.Array); ok && isLeaf(a.Elem()) {
			// pointer to array: the ref names a backing array in the HA family
			fam = "HA"
			root = a.Elem()
		}
	}
	name = fam + ":" + typeKey(root)
	if len(fields) > 0 {
		name += ":" + strings.Join(fields, ".")
	}
	return
}

// heapSort gives the sort of heap `name` holding leaf sort s for location kind k.
func heapSort(k LocKind, s string) string {
	switch k {
	case LRef:
		return "(Array Int " + s + ")"
	case LElem:
		return "(Array Int (Array Int " + s + "))"
	}
	return s
}

// ---------------------------------------------------------------------------
// Heap state

type HeapState struct {
	epoch int
	m     map[string]string
	sorts map[string]string
}

func (h *HeapState) clone() *HeapState {
	n := &HeapState{epoch: h.epoch, m: map[string]string{}, sorts: h.sorts}
	for k, v := range h.m {
		n.m[k] = v
	}
	return n
}
