package main

import (
	"bytes"
	"context"
	"encoding/json"
	"fmt"
	"go/types"
	"os"
	"os/exec"
	"path/filepath"
	"regexp"
	"strings"
	"time"

	"golang.org/x/tools/go/ssa"
)

// Replay of solver counterexamples on the real code.
//
// The model fixes the function's inputs (parameters and the parts of the entry heap they
// reach) and, for a post obligation, the outputs at the failing return. The replay test
// rebuilds the inputs, calls the real function in its own package (go test -overlay, nothing
// is written into /repo) and checks that the real outputs are the ones in the model — for
// which the solver has shown the clause false — or, for a safe:* obligation, that the call
// panics.

type ReplayCtx struct {
	fn     *ssa.Function
	params []*SVal
	names  []string
	entry  *HeapState
	x      *Exec
}

type ReplayResult struct {
	Confirmed bool     `json:"confirmed"`
	Reason    string   `json:"reason,omitempty"`
	Inputs    []string `json:"inputs,omitempty"`
	Expected  []string `json:"expected_outputs,omitempty"`
	TestFile  string   `json:"test_file,omitempty"`
	Output    string   `json:"go_test_output,omitempty"`
	Model     string   `json:"model_values,omitempty"`
}

const replayMaxLen = 72

type rq struct {
	terms []string
	idx   map[string]int
}

func (q *rq) add(t string) int {
	if i, ok := q.idx[t]; ok {
		return i
	}
	q.idx[t] = len(q.terms)
	q.terms = append(q.terms, t)
	return len(q.terms) - 1
}

type goBuilder struct {
	q       *rq
	vals    []string
	fr      *Frame
	h       *HeapState
	pkg     *types.Package
	imports map[string]string
	fail    string
	extra   []string // extra assertions (small-model constraints)
}

func (g *goBuilder) qual(p *types.Package) string {
	if p == g.pkg {
		return ""
	}
	g.imports[p.Path()] = p.Name()
	return p.Name()
}

func (g *goBuilder) typeStr(t types.Type) string { return types.TypeString(t, g.qual) }

// collect registers the model queries needed to rebuild value v (pass 1) ...
func (g *goBuilder) collect(v *SVal, depth int) {
	if g.fail != "" || depth > 4 {
		return
	}
	if len(g.q.terms) > 20000 {
		// nested slices of slices: 72 elements per level multiply; give the replay up rather
		// than the check (the violation is then reported with no-failing-input-found)
		g.fail = "input too large to rebuild from the model"
		return
	}
	switch kindOf(v.T) {
	case KInt, KBool:
		g.q.add(v.Term)
	case KArray:
		a := v.T.Underlying().(*types.Array)
		if kindOf(a.Elem()) != KInt || a.Len() > 80 {
			g.fail = "array type " + v.T.String()
			return
		}
		for i := int64(0); i < a.Len(); i++ {
			g.q.add(sSelect(v.Term, sInt(i)))
		}
	case KStruct:
		if !g.accessible(v.T) {
			g.fail = "struct with inaccessible fields " + v.T.String()
			return
		}
		for _, f := range v.F {
			g.collect(f, depth)
		}
	case KPtr:
		if v.Loc != nil {
			g.fail = "interior pointer parameter"
			return
		}
		g.q.add(v.Term)
		pt, ok := v.T.Underlying().(*types.Pointer)
		if !ok {
			g.fail = "pointer type " + v.T.String()
			return
		}
		loc := &Loc{Kind: LRef, Base: v.Term, Root: pt.Elem(), T: pt.Elem()}
		pv := g.fr.readLocIn(g.h, loc)
		g.collect(pv, depth+1)
	case KSlice:
		g.q.add(v.F[0].Term)
		g.q.add(v.F[2].Term)
		g.extra = append(g.extra, sLe(v.F[2].Term, sInt(replayMaxLen)))
		et := elemType(v.T)
		for i := 0; i < replayMaxLen; i++ {
			loc := &Loc{Kind: LElem, Base: v.F[0].Term, Idx: sAdd(v.F[1].Term, sInt(int64(i))), Root: et, T: et}
			ev := g.fr.readLocIn(g.h, loc)
			g.collect(ev, depth+1)
		}
	default:
		g.fail = "parameter type " + v.T.String()
	}
}

func (g *goBuilder) accessible(t types.Type) bool {
	st := t.Underlying().(*types.Struct)
	for i := 0; i < st.NumFields(); i++ {
		f := st.Field(i)
		if !f.Exported() && f.Pkg() != g.pkg {
			return false
		}
	}
	return true
}

// ... and expr builds the Go expression from the model values (pass 2).
func (g *goBuilder) expr(v *SVal, depth int) string {
	get := func(t string) string { return g.vals[g.q.idx[t]] }
	switch kindOf(v.T) {
	case KInt:
		return g.typeStr(v.T) + "(" + get(v.Term) + ")"
	case KBool:
		return get(v.Term)
	case KArray:
		a := v.T.Underlying().(*types.Array)
		var es []string
		for i := int64(0); i < a.Len(); i++ {
			es = append(es, get(sSelect(v.Term, sInt(i))))
		}
		return g.typeStr(v.T) + "{" + strings.Join(es, ", ") + "}"
	case KStruct:
		st := v.T.Underlying().(*types.Struct)
		var fs []string
		for i, f := range v.F {
			fs = append(fs, st.Field(i).Name()+": "+g.expr(f, depth))
		}
		return g.typeStr(v.T) + "{" + strings.Join(fs, ", ") + "}"
	case KPtr:
		if get(v.Term) == "0" {
			return "nil"
		}
		pt := v.T.Underlying().(*types.Pointer)
		loc := &Loc{Kind: LRef, Base: v.Term, Root: pt.Elem(), T: pt.Elem()}
		pv := g.fr.readLocIn(g.h, loc)
		inner := g.expr(pv, depth+1)
		if kindOf(pt.Elem()) == KStruct || kindOf(pt.Elem()) == KArray {
			return "&" + inner
		}
		return "func() " + g.typeStr(v.T) + " { x := " + inner + "; return &x }()"
	case KSlice:
		if get(v.F[0].Term) == "0" {
			return "nil"
		}
		n := 0
		fmt.Sscan(get(v.F[2].Term), &n)
		et := elemType(v.T)
		var es []string
		for i := 0; i < n && i < replayMaxLen; i++ {
			loc := &Loc{Kind: LElem, Base: v.F[0].Term, Idx: sAdd(v.F[1].Term, sInt(int64(i))), Root: et, T: et}
			ev := g.fr.readLocIn(g.h, loc)
			es = append(es, g.expr(ev, depth+1))
		}
		return g.typeStr(v.T) + "{" + strings.Join(es, ", ") + "}"
	}
	return "nil"
}

var valueRe = regexp.MustCompile(`^\(?\s*(\(- \d+\)|\d+|true|false)\s*\)?$`)

func replayOnRealCode(w *World, o *Obligation, dir string) (rr ReplayResult) {
	defer func() {
		if r := recover(); r != nil {
			rr = ReplayResult{Reason: fmt.Sprintf("replay generator: %v", r)}
		}
	}()
	rc := o.replay
	if rc == nil {
		return ReplayResult{Reason: "no replay context for this obligation kind"}
	}
	isPost := o.Kind == "post"
	isSafe := strings.HasPrefix(o.Kind, "safe") || o.Kind == "nopanic"
	if !isPost && !isSafe {
		return ReplayResult{Reason: "obligation kind " + o.Kind + " has no input/output replay; obligation reported undischarged"}
	}
	fn := rc.fn
	if fn.Parent() != nil {
		return ReplayResult{Reason: "closures are not replayed"}
	}
	x := rc.x
	saveEm := x.em
	// scratch emitter: knows exactly the declarations of the obligation's prefix
	scratch := &Emitter{declared: map[string]string{}, funcs: map[string]bool{}}
	for _, l := range o.em.Lines[:o.Pos] {
		if strings.HasPrefix(l, "(declare-fun ") {
			rest := l[len("(declare-fun "):]
			var name string
			if rest[0] == '|' {
				name = rest[:strings.IndexByte(rest[1:], '|')+2]
			} else {
				name = rest[:strings.IndexByte(rest, ' ')]
			}
			after := strings.TrimSpace(rest[len(name):])
			if strings.HasPrefix(after, "() ") {
				scratch.declared[name] = strings.TrimSuffix(after[3:], ")")
			} else {
				scratch.funcs[name] = true
			}
		}
	}
	x.em = scratch
	defer func() { x.em = saveEm }()
	fr := &Frame{x: x, fn: fn}
	entry := &HeapState{epoch: rc.entry.epoch, m: map[string]string{}, sorts: map[string]string{}}
	g := &goBuilder{q: &rq{idx: map[string]int{}}, fr: fr, h: entry, pkg: fn.Pkg.Pkg, imports: map[string]string{}}
	for _, p := range rc.params {
		g.collect(p, 0)
	}
	if g.fail != "" {
		return ReplayResult{Reason: "inputs not reconstructible: " + g.fail}
	}
	// expected outputs
	var outTerms []string
	if isPost {
		for _, r := range o.rets {
			switch kindOf(r.T) {
			case KInt, KBool:
				outTerms = append(outTerms, r.Term)
			case KIface, KPtr, KMap:
				if r.Term != "" {
					outTerms = append(outTerms, sEq(r.Term, "0"))
				} else {
					outTerms = append(outTerms, "false")
				}
			default:
				outTerms = append(outTerms, "")
			}
		}
		for _, t := range outTerms {
			if t != "" {
				g.q.add(t)
			}
		}
	}
	// solver run with get-value
	var b strings.Builder
	b.WriteString(smtPrelude)
	for _, l := range o.em.Lines[:o.Pos] {
		b.WriteString(l + "\n")
	}
	for _, l := range x.em.Lines {
		b.WriteString(l + "\n")
	}
	b.WriteString("(assert " + o.Goal + ")\n")
	for _, e := range g.extra {
		b.WriteString("(assert " + e + ")\n")
	}
	b.WriteString("(check-sat)\n")
	for _, t := range g.q.terms {
		b.WriteString("(get-value (" + t + "))\n")
	}
	file := filepath.Join(dir, fileSafe(o.Name)+".replay.smt2")
	os.WriteFile(file, []byte(b.String()), 0o644)
	var out string
	var res string
	for _, sd := range []solverDef{solvers[0], solvers[1]} {
		res, out = runOne(context.Background(), sd, file, 20*time.Second)
		if res == "sat" {
			break
		}
	}
	if res != "sat" {
		return ReplayResult{Reason: "no small model (slices limited to " + fmt.Sprint(replayMaxLen) + " elements): solver said " + res}
	}
	lines := strings.Split(strings.TrimSpace(out), "\n")[1:]
	// each get-value answer is "((term value))" possibly spanning lines; join and split on "(("
	joined := strings.Join(lines, " ")
	parts := strings.Split(joined, "((")
	var vals []string
	for _, p := range parts[1:] {
		p = strings.TrimSpace(p)
		p = strings.TrimSuffix(p, "))")
		// value is the last token or "(- n)"
		var v string
		if i := strings.LastIndex(p, "(- "); i >= 0 && strings.HasSuffix(p, ")") {
			v = "-" + strings.TrimSuffix(p[i+3:], ")")
		} else {
			f := strings.Fields(p)
			v = f[len(f)-1]
		}
		vals = append(vals, strings.TrimSpace(v))
	}
	if len(vals) != len(g.q.terms) {
		return ReplayResult{Reason: fmt.Sprintf("could not parse model values (%d of %d)", len(vals), len(g.q.terms)), Model: firstN(out, 30)}
	}
	g.vals = vals
	var args []string
	for _, p := range rc.params {
		args = append(args, g.expr(p, 0))
	}
	// call expression
	var call string
	sig := fn.Signature
	if sig.Recv() != nil {
		call = "(" + args[0] + ")." + fn.Name() + "(" + strings.Join(args[1:], ", ") + ")"
	} else {
		call = fn.Name() + "(" + strings.Join(args, ", ") + ")"
	}
	var body strings.Builder
	nres := sig.Results().Len()
	var expected []string
	if isSafe {
		body.WriteString("\tdefer func() {\n\t\tif r := recover(); r == nil {\n\t\t\tt.Fatalf(\"VERIF-REPLAY: no panic\")\n\t\t} else {\n\t\t\tt.Logf(\"VERIF-REPLAY-CONFIRMED: panic: %v\", r)\n\t\t}\n\t}()\n")
		body.WriteString("\t" + call + "\n")
	} else {
		var lhs []string
		for i := 0; i < nres; i++ {
			lhs = append(lhs, fmt.Sprintf("r%d", i))
		}
		if nres > 0 {
			body.WriteString("\t" + strings.Join(lhs, ", ") + " := " + call + "\n")
		} else {
			body.WriteString("\t" + call + "\n")
		}
		checked := 0
		for i := 0; i < nres && i < len(outTerms); i++ {
			t := outTerms[i]
			if t == "" {
				body.WriteString(fmt.Sprintf("\t_ = r%d\n", i))
				continue
			}
			mv := g.vals[g.q.idx[t]]
			rt := sig.Results().At(i).Type()
			switch kindOf(rt) {
			case KInt:
				body.WriteString(fmt.Sprintf("\tif fmt.Sprint(r%d) != %q {\n\t\tt.Fatalf(\"VERIF-REPLAY: result %d is %%v, model predicted %s\", r%d)\n\t}\n", i, mv, i, mv, i))
				expected = append(expected, fmt.Sprintf("r%d == %s", i, mv))
			case KBool:
				body.WriteString(fmt.Sprintf("\tif r%d != %s {\n\t\tt.Fatalf(\"VERIF-REPLAY: result %d differs from model\")\n\t}\n", i, mv, i))
				expected = append(expected, fmt.Sprintf("r%d == %s", i, mv))
			default:
				body.WriteString(fmt.Sprintf("\tif (r%d == nil) != %s {\n\t\tt.Fatalf(\"VERIF-REPLAY: result %d nil-ness is %%v, model predicted nil=%s\", r%d == nil)\n\t}\n", i, mv, i, mv, i))
				expected = append(expected, fmt.Sprintf("(r%d == nil) == %s", i, mv))
			}
			checked++
		}
		g.imports["fmt"] = "fmt"
		if checked == 0 {
			return ReplayResult{Reason: "no comparable outputs"}
		}
		body.WriteString("\tt.Logf(\"VERIF-REPLAY-CONFIRMED: real outputs equal the model's outputs, for which the clause is false\")\n")
	}
	var src strings.Builder
	src.WriteString("package " + fn.Pkg.Pkg.Name() + "\n\nimport (\n\t\"testing\"\n")
	for path, name := range g.imports {
		if path == "testing" {
			continue
		}
		src.WriteString(fmt.Sprintf("\t%s %q\n", name, path))
	}
	src.WriteString(")\n\nfunc TestVerifReplay(t *testing.T) {\n" + body.String() + "}\n")
	testFile := filepath.Join(dir, fileSafe(o.Name)+"_replay_test.go")
	os.WriteFile(testFile, []byte(src.String()), 0o644)
	// overlay into the package directory
	pkgDir := filepath.Join(w.root, "src", shortPkg(fn.Pkg.Pkg.Path()))
	ov := map[string]map[string]string{"Replace": {filepath.Join(pkgDir, "zz_verif_replay_test.go"): testFile}}
	ovb, _ := json.Marshal(ov)
	ovFile := filepath.Join(dir, fileSafe(o.Name)+".overlay.json")
	os.WriteFile(ovFile, ovb, 0o644)
	ctx, cancel := context.WithTimeout(context.Background(), 180*time.Second)
	defer cancel()
	cmd := exec.CommandContext(ctx, "bash", "-c", fmt.Sprintf("ulimit -v 8000000; cd %s && go test -overlay %s -vet=off -count=1 -timeout 60s -run '^TestVerifReplay$' -v .", pkgDir, ovFile))
	cmd.Env = append(os.Environ(), "GOFLAGS=-mod=vendor", "GOPROXY=off", "GOSUMDB=off", "GOTOOLCHAIN=local")
	var ob bytes.Buffer
	cmd.Stdout = &ob
	cmd.Stderr = &ob
	cmd.Run()
	outS := ob.String()
	rr = ReplayResult{Inputs: args, Expected: expected, TestFile: testFile, Output: firstN(outS, 40)}
	if strings.Contains(outS, "VERIF-REPLAY-CONFIRMED") && strings.Contains(outS, "--- PASS: TestVerifReplay") {
		rr.Confirmed = true
	} else {
		rr.Reason = "real code did not reproduce the model's behaviour (spurious model or replay limitation)"
	}
	return rr
}
