package main

import (
	"fmt"
	"math/big"
	"strings"
)

// SMT terms are plain strings (s-expressions). Small constructors with light
// constant folding keep the generated VCs readable.

func sAnd(xs ...string) string {
	var out []string
	for _, x := range xs {
		if x == "true" || x == "" {
			continue
		}
		if x == "false" {
			return "false"
		}
		out = append(out, x)
	}
	switch len(out) {
	case 0:
		return "true"
	case 1:
		return out[0]
	}
	return "(and " + strings.Join(out, " ") + ")"
}

func sOr(xs ...string) string {
	var out []string
	for _, x := range xs {
		if x == "false" || x == "" {
			continue
		}
		if x == "true" {
			return "true"
		}
		out = append(out, x)
	}
	switch len(out) {
	case 0:
		return "false"
	case 1:
		return out[0]
	}
	return "(or " + strings.Join(out, " ") + ")"
}

func sNot(x string) string {
	switch x {
	case "true":
		return "false"
	case "false":
		return "true"
	}
	if strings.HasPrefix(x, "(not ") && balanced(x[5:len(x)-1]) {
		return x[5 : len(x)-1]
	}
	return "(not " + x + ")"
}

func balanced(s string) bool {
	d := 0
	for i := 0; i < len(s); i++ {
		switch s[i] {
		case '(':
			d++
		case ')':
			d--
			if d < 0 {
				return false
			}
		case '|':
			j := strings.IndexByte(s[i+1:], '|')
			if j < 0 {
				return false
			}
			i += j + 1
		}
	}
	return d == 0
}

func sImp(a, b string) string {
	if a == "true" {
		return b
	}
	if a == "false" || b == "true" {
		return "true"
	}
	return "(=> " + a + " " + b + ")"
}

func sIte(c, a, b string) string {
	if c == "true" {
		return a
	}
	if c == "false" {
		return b
	}
	if a == b {
		return a
	}
	return "(ite " + c + " " + a + " " + b + ")"
}

func sEq(a, b string) string {
	if a == b {
		return "true"
	}
	return "(= " + a + " " + b + ")"
}

func sApp(f string, args ...string) string {
	if len(args) == 0 {
		return f
	}
	return "(" + f + " " + strings.Join(args, " ") + ")"
}

func sInt(n int64) string {
	if n < 0 {
		return fmt.Sprintf("(- %d)", -n)
	}
	return fmt.Sprintf("%d", n)
}

func sBig(n *big.Int) string {
	if n.Sign() < 0 {
		return "(- " + new(big.Int).Neg(n).String() + ")"
	}
	return n.String()
}

func pow2(w int) *big.Int { return new(big.Int).Lsh(big.NewInt(1), uint(w)) }

func sSelect(a, i string) string { return "(select " + a + " " + i + ")" }
func sStore(a, i, v string) string {
	return "(store " + a + " " + i + " " + v + ")"
}

func sAdd(a, b string) string {
	if a == "0" {
		return b
	}
	if b == "0" {
		return a
	}
	return "(+ " + a + " " + b + ")"
}
func sSub(a, b string) string {
	if b == "0" {
		return a
	}
	return "(- " + a + " " + b + ")"
}
func sLe(a, b string) string { return "(<= " + a + " " + b + ")" }
func sLt(a, b string) string { return "(< " + a + " " + b + ")" }

// isIntLit reports whether t is a plain non-negative integer literal.
func isIntLit(t string) (*big.Int, bool) {
	if t == "" {
		return nil, false
	}
	for i := 0; i < len(t); i++ {
		if t[i] < '0' || t[i] > '9' {
			if strings.HasPrefix(t, "(- ") && strings.HasSuffix(t, ")") {
				if v, ok := isIntLit(t[3 : len(t)-1]); ok {
					return new(big.Int).Neg(v), true
				}
			}
			return nil, false
		}
	}
	v, ok := new(big.Int).SetString(t, 10)
	return v, ok
}

// symbol quoting
func sym(s string) string {
	ok := true
	for i := 0; i < len(s); i++ {
		c := s[i]
		if !(c >= 'a' && c <= 'z' || c >= 'A' && c <= 'Z' || c >= '0' && c <= '9' || c == '_' || c == '.' || c == '!' || c == '$' || c == '@' || c == '#' || c == '/' || c == ':' || c == '-' || c == '*' || c == '[' || c == ']') {
			ok = false
		}
	}
	if ok && !(s[0] >= '0' && s[0] <= '9') && s[0] != '-' && !strings.ContainsAny(s, "[]*:#@") {
		return s
	}
	s = strings.ReplaceAll(s, "|", "!")
	s = strings.ReplaceAll(s, "\\", "!")
	return "|" + s + "|"
}

// Emitter accumulates SMT commands in program order.
type Emitter struct {
	Lines    []string
	declared map[string]string
	n        int
	funcs    map[string]bool
}

func NewEmitter() *Emitter {
	e := &Emitter{declared: map[string]string{"str.empty": "Str"}, funcs: map[string]bool{}}
	return e
}

func (e *Emitter) Raw(s string) { e.Lines = append(e.Lines, s) }

func (e *Emitter) Mark() int { return len(e.Lines) }

// Const declares (once) a constant with the exact given name.
func (e *Emitter) Const(name, sort string) string {
	q := sym(name)
	if s, ok := e.declared[q]; ok {
		if s != sort {
			panic(fmt.Sprintf("redeclared %s: %s vs %s", q, s, sort))
		}
		return q
	}
	e.declared[q] = sort
	e.Raw("(declare-fun " + q + " () " + sort + ")")
	return q
}

// Fresh declares a new constant with a unique suffix.
func (e *Emitter) Fresh(base, sort string) string {
	e.n++
	return e.Const(fmt.Sprintf("%s!%d", base, e.n), sort)
}

// Def introduces a named abbreviation for a term.
func (e *Emitter) Def(base, sort, term string) string {
	if len(term) < 24 {
		return term
	}
	c := e.Fresh(base, sort)
	e.Raw("(assert (= " + c + " " + term + "))")
	return c
}

func (e *Emitter) Assert(t string) {
	if t == "true" {
		return
	}
	e.Raw("(assert " + t + ")")
}

// Func declares (once) an uninterpreted function.
func (e *Emitter) Func(name string, args []string, ret string) string {
	q := sym(name)
	if !e.funcs[q] {
		e.funcs[q] = true
		e.Raw("(declare-fun " + q + " (" + strings.Join(args, " ") + ") " + ret + ")")
	}
	return q
}

const smtPrelude = `(set-option :produce-models true)
(set-logic ALL)
(declare-sort Str 0)
(declare-fun strlen (Str) Int)
(declare-fun typetag (Int) Int)
(declare-fun str.empty () Str)
(define-fun hint ((b Bool)) Bool b)
(define-fun hintg ((b Bool)) Bool true)
(define-fun hinte ((b Bool)) Bool b)
(define-fun hintf ((b Bool)) Bool false)
(assert (= (strlen str.empty) 0))
(assert (forall ((s Str)) (! (and (>= (strlen s) 0) (<= (strlen s) 72057594037927936) (=> (= (strlen s) 0) (= s str.empty))) :pattern ((strlen s)))))
`
