package main

import (
	"fmt"
	"go/constant"
	"go/token"
	"go/types"
	"math/big"
	"os"
	"sort"
	"strings"

	"golang.org/x/tools/go/ssa"
)

// Obligation is one proof goal: the SMT prefix Lines[:Pos] plus the negated goal must be unsat.
type Obligation struct {
	Name   string
	Kind   string
	Fn     string
	Props  []string
	Pos    int
	Goal   string // reach && !cond  (to be asserted; unsat == discharged)
	Expect string // "unsat" for proof goals, "sat" for cover goals
	Clause string // source text of the clause, if any
	em     *Emitter
	// filled by solver
	Result  string
	Solver  string
	Seconds float64
	Bytes   int
	Model   string
	Output  string
	File    string
	replay  *ReplayCtx
	rets    []*SVal
	Only    []string // properties this obligation is restricted to (empty: all of the function's)
}

// Exec verifies one top-level function.
type Exec struct {
	w        *World
	em       *Emitter
	top      *ssa.Function
	obls     []*Obligation
	trusted  map[string]bool
	nFrames  int
	discover bool
	// loop discovery results: header block -> modified heap names (+"*" for everything)
	loopMods map[*ssa.BasicBlock]map[string]bool
	curLoops []*ssa.BasicBlock
	strConst map[string]string
	sentinel []string
	freshErr []string
	sumFns   map[string]string
	typeTags map[string]int
	ordinals map[string]int
	props    []string
	fnKey    string
	depth    int
	allocSeq int
	sumInst  map[string]bool
	stack    []*ssa.Function
	usedContracts map[string]bool
	replayCtx     *ReplayCtx
	curRets       []*SVal
	// loop discovery: header -> heap name -> store roots (nil entry = unknown writer)
	loopRoots map[*ssa.BasicBlock]map[string][]ssa.Value
	opaque    map[string]*opaqueInfo
	bindFail  map[string]bool
	snap      map[string]*Loc // snapshot backing arrays of embedded arrays -> where they live
	guardsSeen map[string]bool
	idxConst   map[string]string // named loop-index terms (quantifier instances)
	closuresSeen map[string]bool
	resTypes   map[string]types.Type
	onlyProps  []string
}

type Frame struct {
	x        *Exec
	fn       *ssa.Function
	id       string
	vals     map[ssa.Value]*SVal
	reach    map[*ssa.BasicBlock]string
	out      map[*ssa.BasicBlock]*HeapState
	edge     map[[2]*ssa.BasicBlock]string
	entry    *HeapState
	cur      *HeapState
	curReach string
	curBlock *ssa.BasicBlock
	freshRoots bool // set by stableCells: some stores of the loop go to memory allocated in its body
	curPos   string // source position of the instruction being executed (for safety obligations)
	contract *Contract
	rets     []*retInfo
	inlined  bool
	site     string
	loops    map[*ssa.BasicBlock]*loopInfo
	loopsOf  map[*ssa.BasicBlock][]*ssa.BasicBlock
	order    []*ssa.BasicBlock
	debug    map[*ssa.BasicBlock][]*ssa.DebugRef
	params   map[string]*SVal
	dedupe   map[string]bool
	defers   []*ssa.Defer
	loopOrd  map[*ssa.BasicBlock]int
	storeRoot ssa.Value
	storeRootExtra ssa.Value // a second root of the same write (append: the call itself, for its fresh array)
	parent    *Frame
	locals    []localAlloc
	pendingCall []string
	lastResult  map[string]*callResult
	escaped     map[*ssa.Alloc]bool
	curCallArgs []ssa.Value
}

type localAlloc struct {
	ref   string
	t     types.Type
	alloc *ssa.Alloc
}

type retInfo struct {
	reach string
	vals  []*SVal
	heap  *HeapState
}

type loopInfo struct {
	header *ssa.BasicBlock
	body   map[*ssa.BasicBlock]bool
	ord    int
}

func (x *Exec) ordinal(k string) int {
	x.ordinals[k]++
	return x.ordinals[k]
}

func (x *Exec) trust(s string) { x.trusted[s] = true }

// ---------------------------------------------------------------------------
// heap access

func (x *Exec) newHeap() *HeapState {
	return &HeapState{epoch: 0, m: map[string]string{}, sorts: map[string]string{}}
}

func (x *Exec) heapGet(h *HeapState, name, sort string) string {
	if t, ok := h.m[name]; ok {
		return t
	}
	if strings.HasPrefix(name, "$called:") {
		// ghost flag never set on this path: no such call has happened (whatever was havocked
		// in between: the flags are the generator's, not the program's)
		h.sorts[name] = sort
		h.m[name] = "false"
		return "false"
	}
	h.sorts[name] = sort
	c := x.em.Const(fmt.Sprintf("%s@%d", name, h.epoch), sort)
	h.m[name] = c
	return c
}

func (fr *Frame) heapSet(name, sort, term string) {
	h := fr.cur
	h.sorts[name] = sort
	h.m[name] = fr.x.em.Def(name, sort, term)
	if fr.x.discover {
		for _, l := range fr.x.curLoops {
			fr.x.loopMods[l][name] = true
			root := fr.storeRoot
			if root != nil && l.Parent() != fr.fn {
				root = nil
			}
			if fr.x.loopRoots[l] == nil {
				fr.x.loopRoots[l] = map[string][]ssa.Value{}
			}
			fr.x.loopRoots[l][name] = append(fr.x.loopRoots[l][name], root)
			if fr.storeRootExtra != nil && l.Parent() == fr.fn {
				fr.x.loopRoots[l][name] = append(fr.x.loopRoots[l][name], fr.storeRootExtra)
			}
		}
	}
}

func (fr *Frame) havocAll(why string) {
	x := fr.x
	x.nFrames++
	old := fr.cur
	n := &HeapState{epoch: 1000 + x.nFrames, m: map[string]string{}, sorts: old.sorts}
	// allocation counter only grows
	oa := x.heapGet(old, "$alloc", "Int")
	na := x.heapGet(n, "$alloc", "Int")
	x.em.Assert(sLe(oa, na))
	fr.cur = n
	// generator-maintained ghost flags are not program state
	for name, t := range old.m {
		if strings.HasPrefix(name, "$called:") || strings.HasPrefix(name, "$res:") {
			n.m[name] = t
		}
	}
	// locals whose address never escapes (ssa.Alloc with Heap == false) are out of reach of
	// any callee: their cells keep their values
	for f := fr; f != nil; f = f.parent {
		for _, la := range f.locals {
			if f.escaped[la.alloc] {
				continue
			}
			loc := &Loc{Kind: LRef, Base: la.ref, Root: la.t, T: la.t}
			func() {
				defer func() {
					if r := recover(); r != nil {
						if _, ok := r.(Unsupported); !ok {
							panic(r)
						}
					}
				}()
				for _, lf := range leavesOf(la.t) {
					name, inner := loc.heapFor(lf.Path)
					if len(inner) > 0 {
						continue
					}
					hs := heapSort(LRef, lf.Sort)
					if _, known := old.m[name]; !known {
						continue
					}
					nh := x.heapGet(n, name, hs)
					n.m[name] = x.em.Def(name, hs, sStore(nh, la.ref, sSelect(old.m[name], la.ref)))
				}
			}()
		}
	}
	if x.discover {
		for _, l := range x.curLoops {
			x.loopMods[l]["*"] = true
		}
	}
	x.trust("havoc-all: " + why)
}

const allocName = "$alloc"

func (fr *Frame) freshRef(what string) string {
	x := fr.x
	top := x.heapGet(fr.cur, allocName, "Int")
	x.allocSeq++
	r := x.em.Fresh("ref."+what, "Int")
	x.em.Assert(sEq(r, sAdd(top, "1")))
	fr.cur.m[allocName] = r
	if x.discover {
		for _, l := range x.curLoops {
			x.loopMods[l][allocName] = true
		}
	}
	return r
}

// readLeaf reads one leaf below loc.
func (fr *Frame) readLeafIn(h *HeapState, loc *Loc, lf Leaf) string {
	name, inner := loc.heapFor(lf.Path)
	s := lf.Sort
	// the heap holds the sort at the first index step
	base := s
	if len(inner) > 0 {
		base = sortOf(fr.typeAtFirstIndex(loc))
	}
	hs := heapSort(loc.Kind, base)
	t := fr.x.heapGet(h, name, hs)
	switch loc.Kind {
	case LRef:
		t = sSelect(t, loc.Base)
	case LElem:
		t = sSelect(sSelect(t, loc.Base), loc.Idx)
	}
	for _, ix := range inner {
		t = sSelect(t, ix)
	}
	return t
}

// typeAtFirstIndex returns the (array) type at the first index step of loc.Path.
func (fr *Frame) typeAtFirstIndex(loc *Loc) types.Type {
	t := loc.Root
	for _, st := range loc.Path {
		if st.Field == "" {
			return t
		}
		t = fieldType(t, st.Field)
	}
	return t
}

func fieldType(t types.Type, name string) types.Type {
	st, ok := t.Underlying().(*types.Struct)
	if !ok {
		panic(unsupported("field %s of non-struct %s", name, t))
	}
	for i := 0; i < st.NumFields(); i++ {
		if st.Field(i).Name() == name {
			return st.Field(i).Type()
		}
	}
	panic(unsupported("no field %s in %s", name, t))
}

func (fr *Frame) readLocIn(h *HeapState, loc *Loc) *SVal {
	v := buildVal(loc.T, func(lf Leaf) string {
		t := fr.readLeafIn(h, loc, lf)
		return t
	})
	return v
}

func (fr *Frame) readLoc(loc *Loc) *SVal {
	v := fr.readLocIn(fr.cur, loc)
	fr.assumeRanges(v)
	// a well-formed heap holds no dangling future references: everything loaded was
	// allocated before now
	fr.assumeAllocated(v, fr.x.heapGet(fr.cur, allocName, "Int"))
	return v
}

func (fr *Frame) writeLoc(loc *Loc, v *SVal) {
	lvs := leavesOf(loc.T)
	fl := v.flat()
	if len(lvs) != len(fl) {
		panic(unsupported("writeLoc shape mismatch %s: %d vs %d", loc.T, len(lvs), len(fl)))
	}
	for i, lf := range lvs {
		fr.writeLeaf(loc, lf, fl[i].Term)
	}
}

func (fr *Frame) writeLeaf(loc *Loc, lf Leaf, val string) {
	name, inner := loc.heapFor(lf.Path)
	base := lf.Sort
	if len(inner) > 0 {
		base = sortOf(fr.typeAtFirstIndex(loc))
	}
	hs := heapSort(loc.Kind, base)
	h := fr.x.heapGet(fr.cur, name, hs)
	// compute the new value at the root cell
	var cell string
	switch loc.Kind {
	case LRef:
		cell = sSelect(h, loc.Base)
	case LElem:
		cell = sSelect(sSelect(h, loc.Base), loc.Idx)
	default:
		cell = h
	}
	nv := val
	if len(inner) > 0 {
		// nested stores
		var rec func(cur string, idx []string) string
		rec = func(cur string, idx []string) string {
			if len(idx) == 0 {
				return val
			}
			return sStore(cur, idx[0], rec(sSelect(cur, idx[0]), idx[1:]))
		}
		nv = rec(cell, inner)
	}
	var nh string
	switch loc.Kind {
	case LRef:
		nh = sStore(h, loc.Base, nv)
	case LElem:
		nh = sStore(h, loc.Base, sStore(sSelect(h, loc.Base), loc.Idx, nv))
	default:
		nh = nv
	}
	fr.heapSet(name, hs, nh)
}

// assumeRanges asserts type-range facts for every integer leaf of v.
func (fr *Frame) assumeRanges(v *SVal) {
	for _, l := range v.flat() {
		fr.x.assumeRange(l.Term, l.T)
	}
	fr.assumeSliceInv(v)
}

func (x *Exec) assumeRange(term string, t types.Type) {
	if kindOf(t) != KInt {
		if k := kindOf(t); k == KPtr || k == KMap {
			if _, ok := isIntLit(term); !ok {
				x.em.Assert(sLe("0", term))
			}
		}
		return
	}
	if _, ok := isIntLit(term); ok {
		return
	}
	lo, hi := intRange(t)
	x.em.Assert(sAnd(sLe(sBig(lo), term), sLe(term, sBig(hi))))
}

const maxSliceLen = "72057594037927936" // 2^56 (assumption T5)

func (fr *Frame) assumeSliceInv(v *SVal) {
	if v.F == nil {
		return
	}
	if kindOf(v.T) == KSlice {
		arr, off, ln, cp := v.F[0].Term, v.F[1].Term, v.F[2].Term, v.F[3].Term
		fr.x.em.Assert(sAnd(sLe("0", arr), sLe("0", off), sLe("0", ln), sLe(ln, cp), sLe(cp, maxSliceLen), sLe(off, maxSliceLen),
			sImp(sEq(arr, "0"), sEq(cp, "0"))))
		return
	}
	for _, f := range v.F {
		fr.assumeSliceInv(f)
	}
}

// ---------------------------------------------------------------------------
// obligations

func (fr *Frame) oblige(kind, detail, cond string, clause string) {
	x := fr.x
	if clause == "" && fr.curPos != "" && (strings.HasPrefix(kind, "safe") || kind == "nooverflow" || kind == "nopanic") {
		clause = "at " + fr.curPos
	}
	if cond == "true" {
		// discharged syntactically by the generator's own simplification; recorded for
		// clauses of the contract (not for the implicit safety conditions)
		if !x.discover && (kind == "post" || kind == "guard" || kind == "pre" || kind == "lemma" || strings.HasPrefix(kind, "inv")) {
			name := x.fnKey + "#" + kind
			if detail != "" {
				name += ":" + detail
			}
			if n := x.ordinal(name); n > 1 {
				name = fmt.Sprintf("%s#%d", name, n)
			}
			x.obls = append(x.obls, &Obligation{Name: name, Kind: kind, Fn: x.fnKey, Props: x.props, Pos: x.em.Mark(), Goal: "false",
				Expect: "unsat", Clause: clause, em: x.em, Result: "unsat", Solver: "syntactic"})
		}
		return
	}
	if c := x.w.contracts[x.fnKey]; c != nil && c.Lenient && kind != "guard" && kind != "inv-init" && kind != "inv-pres" && kind != "post" && kind != "closure-pre" &&
		!(c.Bounds && (kind == "safe:index" || kind == "safe:slice" || kind == "safe:makelen")) {
		// lenient contracts claim their call-site guards and checks only (and prove the loop
		// invariants those rest on, and any ensures clause, which callers rely on); safety
		// conditions, frames and callee preconditions are assumed
		if kind != "post" && kind != "frame" {
			x.em.Assert(sImp(fr.curReach, cond))
		}
		return
	}
	key := kind + "|" + fr.curReach + "|" + cond
	if fr.dedupe[key] {
		return
	}
	fr.dedupe[key] = true
	name := x.fnKey + "#" + kind
	if detail != "" {
		name += ":" + detail
	}
	if fr.inlined {
		name += "@in:" + fr.site
	}
	n := x.ordinal(name)
	if n > 1 || (strings.HasPrefix(kind, "safe") || kind == "nooverflow") {
		name = fmt.Sprintf("%s#%d", name, n)
	}
	if !x.discover {
		x.obls = append(x.obls, &Obligation{Name: name, Kind: kind, Fn: x.fnKey, Props: x.props, Pos: x.em.Mark(),
			Goal: sAnd(fr.curReach, sNot(strings.ReplaceAll(cond, "(hint ", "(hintg "))), Expect: "unsat", Clause: clause, em: x.em, replay: x.replayCtx, rets: x.curRets, Only: x.onlyProps})
	}
	if kind == "post" || kind == "frame" || cond == "false" {
		// nothing follows a return; keeping failed postconditions out of the assumptions also
		// keeps the vacuity guard (cover:return) meaningful. An obligation that is literally
		// false (a guard that no longer binds) is reported, not assumed.
		return
	}
	x.em.Assert(sImp(fr.curReach, strings.ReplaceAll(cond, "(hinte ", "(hintf ")))
}

// (witness instances of existential quantifiers, "(hinte ...)", help where the clause is a goal;
// where it is assumed they are redundant disjuncts and are dropped)
func (fr *Frame) assume(cond string) {
	fr.x.em.Assert(sImp(fr.curReach, strings.ReplaceAll(cond, "(hinte ", "(hintf ")))
}

// ---------------------------------------------------------------------------
// values

func (fr *Frame) val(v ssa.Value) *SVal {
	if sv, ok := fr.vals[v]; ok {
		return sv
	}
	switch c := v.(type) {
	case *ssa.Const:
		return fr.constVal(c)
	case *ssa.Global:
		return &SVal{T: c.Type(), Loc: fr.globalLoc(c)}
	case *ssa.Function:
		return &SVal{T: c.Type(), Term: fr.x.em.Const("fn:"+c.String(), "Int"), Fn: c}
	case *ssa.Builtin:
		return &SVal{T: c.Type(), Term: "0"}
	}
	panic(unsupported("value %s (%T) not available in %s", v.Name(), v, fr.fn.Name()))
}

func (fr *Frame) globalLoc(g *ssa.Global) *Loc {
	t := g.Type().(*types.Pointer).Elem()
	name := g.Pkg.Pkg.Path() + "." + g.Name()
	return &Loc{Kind: LGlobal, Base: shortPkg(name), Root: t, T: t}
}

func shortPkg(s string) string {
	s = strings.TrimPrefix(s, "github.com/skycoin/skycoin/src/")
	return s
}

func (fr *Frame) constVal(c *ssa.Const) *SVal {
	t := c.Type()
	if c.Value == nil {
		return zeroVal(t)
	}
	switch kindOf(t) {
	case KInt, KSpecInt:
		n, ok := new(big.Int).SetString(c.Value.ExactString(), 10)
		if !ok {
			// could be a rune etc.
			i, _ := constant.Int64Val(constant.ToInt(c.Value))
			n = big.NewInt(i)
		}
		return leaf(t, sBig(n))
	case KBool:
		if constant.BoolVal(c.Value) {
			return leaf(t, "true")
		}
		return leaf(t, "false")
	case KStr:
		return leaf(t, fr.x.strLit(constant.StringVal(c.Value)))
	case KFloat:
		f, _ := constant.Float64Val(c.Value)
		return leaf(t, fmt.Sprintf("%f", f))
	}
	panic(unsupported("constant %s of type %s", c, t))
}

func (x *Exec) strLit(s string) string {
	if s == "" {
		x.declStrEmpty()
		return "str.empty"
	}
	if c, ok := x.strConst[s]; ok {
		return c
	}
	x.declStrEmpty()
	name := fmt.Sprintf("str.%d.%s", len(x.strConst), sanitize(s))
	c := x.em.Const(name, "Str")
	x.em.Assert(sEq("(strlen "+c+")", sInt(int64(len(s)))))
	var others []string
	for _, o := range x.strConst {
		others = append(others, o)
	}
	sort.Strings(others)
	for _, o := range others {
		x.em.Assert("(distinct " + c + " " + o + ")")
	}
	x.em.Assert("(distinct " + c + " str.empty)")
	x.strConst[s] = c
	return c
}

func (x *Exec) declStrEmpty() {
	if _, ok := x.em.declared["str.empty"]; !ok {
		x.em.Const("str.empty", "Str")
		x.em.Assert("(= (strlen str.empty) 0)")
		x.em.Assert("(forall ((s Str)) (! (and (>= (strlen s) 0) (=> (= (strlen s) 0) (= s str.empty))) :pattern ((strlen s))))")
	}
}

func sanitize(s string) string {
	var b strings.Builder
	for i := 0; i < len(s) && i < 24; i++ {
		c := s[i]
		if c >= 'a' && c <= 'z' || c >= 'A' && c <= 'Z' || c >= '0' && c <= '9' {
			b.WriteByte(c)
		} else {
			b.WriteByte('_')
		}
	}
	return b.String()
}

func (x *Exec) typeTag(t types.Type) string {
	k := typeKey(t)
	if n, ok := x.typeTags[k]; ok {
		return sInt(int64(n))
	}
	n := len(x.typeTags) + 1
	x.typeTags[k] = n
	return sInt(int64(n))
}

// ---------------------------------------------------------------------------
// integer arithmetic, exact machine semantics over Int

func wrapInt(t types.Type, raw string) string {
	if v, ok := isIntLit(raw); ok {
		lo, hi := intRange(t)
		if v.Cmp(lo) >= 0 && v.Cmp(hi) <= 0 {
			return raw
		}
	}
	w, signed := intInfo(t)
	m := pow2(w).String()
	// the in-range case is spelled out: (ite in-range x (x mod 2^w)). Same value, but the
	// solvers then decide the common no-overflow case by a comparison instead of reasoning about
	// mod (observed: 0.25 s instead of an erratic 0.3-50 s on the pairwise loops of
	// processTransactions)
	v := raw
	pre, post := "", ""
	if strings.ContainsAny(raw, "( ") && wrapLet {
		wrapCounter++
		v = fmt.Sprintf("w!%d", wrapCounter)
		pre, post = "(let (("+v+" "+raw+")) ", ")"
	}
	if !signed {
		if !wrapLet {
			return "(mod " + raw + " " + m + ")"
		}
		return pre + "(ite (and (<= 0 " + v + ") (< " + v + " " + m + ")) " + v + " (mod " + v + " " + m + "))" + post
	}
	h := pow2(w - 1).String()
	if !wrapLet {
		return "(- (mod (+ " + raw + " " + h + ") " + m + ") " + h + ")"
	}
	return pre + "(ite (and (<= (- " + h + ") " + v + ") (< " + v + " " + h + ")) " + v + " (- (mod (+ " + v + " " + h + ") " + m + ") " + h + "))" + post
}

var wrapLet = os.Getenv("GOVC_NOWRAPLET") == ""
var wrapCounter int

func inRange(t types.Type, raw string) string {
	lo, hi := intRange(t)
	return sAnd(sLe(sBig(lo), raw), sLe(raw, sBig(hi)))
}

func truncDiv(a, b string) string {
	return "(ite (>= " + a + " 0) (div " + a + " " + b + ") (- (div (- " + a + ") " + b + ")))"
}

func (fr *Frame) binop(op token.Token, xv, yv *SVal, rt types.Type, instr ssa.Instruction) *SVal {
	x := fr.x
	a, b := xv.Term, yv.Term
	switch op {
	case token.EQL, token.NEQ:
		eq := fr.equal(xv, yv)
		if op == token.NEQ {
			eq = sNot(eq)
		}
		return leaf(rt, eq)
	}
	k := kindOf(xv.T)
	if k == KStr {
		switch op {
		case token.ADD:
			f := x.em.Func("strcat", []string{"Str", "Str"}, "Str")
			r := sApp(f, a, b)
			x.declStrEmpty()
			x.em.Assert(sEq("(strlen "+r+")", sAdd("(strlen "+a+")", "(strlen "+b+")")))
			return leaf(rt, r)
		case token.LSS, token.LEQ, token.GTR, token.GEQ:
			f := x.em.Func("strless", []string{"Str", "Str"}, "Bool")
			switch op {
			case token.LSS:
				return leaf(rt, sApp(f, a, b))
			case token.GTR:
				return leaf(rt, sApp(f, b, a))
			case token.LEQ:
				return leaf(rt, sNot(sApp(f, b, a)))
			default:
				return leaf(rt, sNot(sApp(f, a, b)))
			}
		}
	}
	if k == KBool {
		switch op {
		case token.AND, token.LAND:
			return leaf(rt, sAnd(a, b))
		case token.OR, token.LOR:
			return leaf(rt, sOr(a, b))
		}
	}
	if k == KFloat {
		r := x.em.Fresh("float", "Real")
		x.trust("floating point arithmetic havocked")
		switch op {
		case token.LSS, token.LEQ, token.GTR, token.GEQ:
			return leaf(rt, x.em.Fresh("fcmp", "Bool"))
		}
		return leaf(rt, r)
	}
	if k != KInt {
		panic(unsupported("binop %s on %s", op, xv.T))
	}
	switch op {
	case token.LSS:
		return leaf(rt, sLt(a, b))
	case token.LEQ:
		return leaf(rt, sLe(a, b))
	case token.GTR:
		return leaf(rt, sLt(b, a))
	case token.GEQ:
		return leaf(rt, sLe(b, a))
	}
	w, signed := intInfo(rt)
	var raw string
	if ca, ok := isIntLit(a); ok {
		if cb, ok := isIntLit(b); ok && (op == token.ADD || op == token.SUB || op == token.MUL) {
			r := new(big.Int)
			switch op {
			case token.ADD:
				r.Add(ca, cb)
			case token.SUB:
				r.Sub(ca, cb)
			case token.MUL:
				r.Mul(ca, cb)
			}
			lo, hi := intRange(rt)
			if r.Cmp(lo) >= 0 && r.Cmp(hi) <= 0 {
				return leaf(rt, sBig(r))
			}
		}
	}
	switch op {
	case token.ADD:
		raw = "(+ " + a + " " + b + ")"
	case token.SUB:
		raw = "(- " + a + " " + b + ")"
	case token.MUL:
		raw = "(* " + a + " " + b + ")"
	case token.QUO, token.REM:
		fr.oblige("safe:div0", "", sNot(sEq(b, "0")), "")
		var q string
		if signed {
			q = truncDiv(a, b)
		} else {
			q = "(div " + a + " " + b + ")"
		}
		if op == token.QUO {
			raw = q
		} else {
			if !signed {
				return leaf(rt, "(mod "+a+" "+b+")")
			}
			qd := x.em.Def("q", "Int", q)
			return leaf(rt, "(- "+a+" (* "+b+" "+qd+"))")
		}
		if !signed {
			return leaf(rt, raw)
		}
	case token.SHL:
		if n, ok := isIntLit(b); ok && n.IsInt64() && n.Int64() < 256 {
			if int(n.Int64()) >= w {
				return leaf(rt, "0")
			}
			raw = "(* " + a + " " + pow2(int(n.Int64())).String() + ")"
		} else {
			f := x.em.Func("pow2", []string{"Int"}, "Int")
			x.em.Assert(sLe("1", sApp(f, b)))
			raw = "(* " + a + " " + sApp(f, b) + ")"
			x.trust("variable shift: pow2 uninterpreted")
			r := x.em.Fresh("shl", "Int")
			x.assumeRange(r, rt)
			return leaf(rt, r)
		}
	case token.SHR:
		if n, ok := isIntLit(b); ok && n.IsInt64() && n.Int64() < 256 {
			if int(n.Int64()) >= w && !signed {
				return leaf(rt, "0")
			}
			return leaf(rt, "(div "+a+" "+pow2(int(n.Int64())).String()+")")
		}
		r := x.em.Fresh("shr", "Int")
		x.assumeRange(r, rt)
		if !signed {
			x.em.Assert(sLe(r, a))
		}
		x.trust("variable shift right over-approximated")
		return leaf(rt, r)
	case token.AND, token.OR, token.XOR, token.AND_NOT:
		return leaf(rt, fr.bitop(op, a, b, rt))
	default:
		panic(unsupported("binop %s", op))
	}
	if fr.contract != nil && fr.contract.NoOverflow && !fr.inlined {
		fr.oblige("nooverflow", op.String(), inRange(rt, raw), "")
	}
	return leaf(rt, wrapInt(rt, raw))
}

func (fr *Frame) bitop(op token.Token, a, b string, rt types.Type) string {
	x := fr.x
	w, signed := intInfo(rt)
	ca, oka := isIntLit(a)
	cb, okb := isIntLit(b)
	if oka && okb && !signed {
		r := new(big.Int)
		switch op {
		case token.AND:
			r.And(ca, cb)
		case token.OR:
			r.Or(ca, cb)
		case token.XOR:
			r.Xor(ca, cb)
		case token.AND_NOT:
			r.AndNot(ca, cb)
		}
		return sBig(r)
	}
	if op == token.AND {
		// x & (2^k - 1)  ==  x mod 2^k (also for a negative x in two's complement: SMT mod is
		// the non-negative remainder)
		mask, other := cb, a
		if oka {
			mask, other = ca, b
		}
		if mask != nil {
			m1 := new(big.Int).Add(mask, big.NewInt(1))
			if mask.Sign() >= 0 && m1.BitLen() > 0 && new(big.Int).And(m1, mask).Sign() == 0 {
				return "(mod " + other + " " + m1.String() + ")"
			}
		}
	}
	if op == token.OR && !signed {
		// disjoint-bit OR of a shifted value and a small value is common in decoders; keep
		// it uninterpreted but bounded.
	}
	name := map[token.Token]string{token.AND: "band", token.OR: "bor", token.XOR: "bxor", token.AND_NOT: "bandnot"}[op]
	f := x.em.Func(fmt.Sprintf("%s%d", name, w), []string{"Int", "Int"}, "Int")
	r := sApp(f, a, b)
	if !signed {
		lo, hi := intRange(rt)
		x.em.Assert(sAnd(sLe(sBig(lo), r), sLe(r, sBig(hi))))
		switch op {
		case token.AND:
			x.em.Assert(sAnd(sLe(r, a), sLe(r, b)))
		case token.OR:
			x.em.Assert(sAnd(sLe(a, r), sLe(b, r), sLe(r, sAdd(a, b))))
		case token.XOR:
			x.em.Assert(sLe(r, sAdd(a, b)))
		case token.AND_NOT:
			x.em.Assert(sLe(r, a))
		}
	} else {
		x.assumeRange(r, rt)
		if op == token.AND {
			// on non-negative operands & behaves as on unsigned values
			x.em.Assert(sImp(sAnd(sLe("0", a), sLe("0", b)), sAnd(sLe("0", r), sLe(r, a), sLe(r, b))))
		}
	}
	return r
}

// equal builds Go == over two values of the same type.
func (fr *Frame) equal(a, b *SVal) string {
	if a.F != nil || b.F != nil {
		if kindOf(a.T) == KSlice || kindOf(b.T) == KSlice {
			// only comparison with nil is legal Go
			s := a
			if len(a.F) == 0 || (a.F[0].Term == "0" && a.F[3].Term == "0") {
				s = b
			}
			return sEq(s.F[0].Term, "0")
		}
		if len(a.F) != len(b.F) {
			panic(unsupported("equal: shape mismatch"))
		}
		var cs []string
		for i := range a.F {
			cs = append(cs, fr.equal(a.F[i], b.F[i]))
		}
		return sAnd(cs...)
	}
	if a.Loc != nil || b.Loc != nil {
		// static interior pointers: never nil
		if a.Loc != nil && b.Loc != nil {
			panic(unsupported("comparison of two interior pointers"))
		}
		return "false"
	}
	return sEq(a.Term, b.Term)
}

func (fr *Frame) convert(v *SVal, to types.Type) *SVal {
	x := fr.x
	fk, tk := kindOf(v.T), kindOf(to)
	switch {
	case fk == KInt && tk == KInt:
		flo, fhi := intRange(v.T)
		tlo, thi := intRange(to)
		if flo.Cmp(tlo) >= 0 && fhi.Cmp(thi) <= 0 {
			return leaf(to, v.Term)
		}
		if fr.contract != nil && fr.contract.NoOverflow && !fr.inlined {
			fr.oblige("nooverflow", "convert", inRange(to, v.Term), "")
		}
		return leaf(to, wrapInt(to, v.Term))
	case fk == KSpecInt && tk == KInt:
		return leaf(to, wrapInt(to, v.Term))
	case fk == tk && fk != KSlice && fk != KStruct:
		return leaf(to, v.Term)
	case fk == KSlice && tk == KSlice:
		return &SVal{T: to, F: v.F}
	case fk == KStruct && tk == KStruct:
		return &SVal{T: to, F: v.F}
	case fk == KSlice && tk == KStr:
		// string(bytes): uninterpreted function of contents
		f := x.em.Func("bytes2str", []string{"(Array Int Int)", "Int", "Int"}, "Str")
		arr := sSelect(x.heapGet(fr.cur, "HA:"+typeKey(elemType(v.T)), heapSort(LElem, "Int")), v.F[0].Term)
		r := sApp(f, arr, v.F[1].Term, v.F[2].Term)
		x.declStrEmpty()
		x.em.Assert(sEq("(strlen "+r+")", v.F[2].Term))
		return leaf(to, r)
	case fk == KStr && tk == KSlice:
		// []byte(s): fresh array whose length is len(s); contents tied to s by an uninterpreted function
		if b, ok := elemType(to).Underlying().(*types.Basic); ok && b.Kind() == types.Int32 {
			// []rune(s): between len(s)/4 (rounded up) and len(s) code points, each in
			// [0, 0x10FFFF]; contents tied to s by an uninterpreted function
			ref := fr.freshRef("str2runes")
			f := x.em.Func("str2runes", []string{"Str"}, "(Array Int Int)")
			g := x.em.Func("str2runes.len", []string{"Str"}, "Int")
			name := "HA:" + typeKey(elemType(to))
			hs := heapSort(LElem, "Int")
			fr.heapSet(name, hs, sStore(x.heapGet(fr.cur, name, hs), ref, sApp(f, v.Term)))
			x.declStrEmpty()
			sl := "(strlen " + v.Term + ")"
			ln := sApp(g, v.Term)
			x.em.Assert(sAnd(sLe(ln, sl), sLe(sl, "(* 4 "+ln+")"), sLe("0", ln)))
			x.em.Assert("(forall ((i!rn Int)) (! (and (<= 0 (select " + sApp(f, v.Term) + " i!rn)) (<= (select " + sApp(f, v.Term) + " i!rn) 1114111)) :pattern ((select " + sApp(f, v.Term) + " i!rn))))")
			return &SVal{T: to, F: []*SVal{leaf(intType, ref), leaf(intType, "0"), leaf(intType, ln), leaf(intType, ln)}}
		}
		ref := fr.freshRef("str2bytes")
		f := x.em.Func("str2bytes", []string{"Str"}, "(Array Int Int)")
		name := "HA:" + typeKey(elemType(to))
		hs := heapSort(LElem, "Int")
		fr.heapSet(name, hs, sStore(x.heapGet(fr.cur, name, hs), ref, sApp(f, v.Term)))
		x.declStrEmpty()
		ln := "(strlen " + v.Term + ")"
		return &SVal{T: to, F: []*SVal{leaf(intType, ref), leaf(intType, "0"), leaf(intType, ln), leaf(intType, ln)}}
	case fk == KInt && tk == KStr:
		f := x.em.Func("rune2str", []string{"Int"}, "Str")
		return leaf(to, sApp(f, v.Term))
	case fk == KInt && tk == KFloat, fk == KFloat && tk == KInt, fk == KFloat && tk == KFloat:
		x.trust("floating point conversion havocked")
		r := x.em.Fresh("fconv", sortOf(to))
		x.assumeRange(r, to)
		return leaf(to, r)
	case fk == KPtr && tk == KPtr:
		return &SVal{T: to, Term: v.Term, Loc: v.Loc}
	}
	panic(unsupported("convert %s -> %s", v.T, to))
}

func elemType(t types.Type) types.Type {
	switch u := t.Underlying().(type) {
	case *types.Slice:
		return u.Elem()
	case *types.Array:
		return u.Elem()
	case *types.Pointer:
		return elemType(u.Elem())
	case *types.Basic:
		return types.Typ[types.Uint8]
	}
	panic(unsupported("elemType %s", t))
}

// ptrLoc turns a pointer value into a location (checking nil for Ref pointers).
func (fr *Frame) ptrLoc(p *SVal, check bool) *Loc {
	if p.Loc != nil {
		return p.Loc
	}
	pt, ok := p.T.Underlying().(*types.Pointer)
	if !ok {
		panic(unsupported("ptrLoc on %s", p.T))
	}
	if check {
		fr.oblige("safe:nil", "", sNot(sEq(p.Term, "0")), "")
	}
	el := pt.Elem()
	if a, ok := el.Underlying().(*types.Array); ok && !isStructLike(a.Elem()) {
		// pointer to array: the ref is a backing array in the HA family
		_ = a
		return &Loc{Kind: LRef, Base: p.Term, Root: el, T: el}
	}
	return &Loc{Kind: LRef, Base: p.Term, Root: el, T: el}
}

func isStructLike(t types.Type) bool { return !isLeaf(t) }
