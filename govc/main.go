package main

import (
	"flag"
	"fmt"
	"os"
	"sort"
	"strings"
	"time"
)

func osEnviron() []string { return os.Environ() }

func main() {
	if len(os.Args) < 2 {
		fmt.Fprintln(os.Stderr, "usage: govc check <PROP> [--tier quick|thorough] | verify <key>... | dump <key>")
		os.Exit(2)
	}
	switch os.Args[1] {
	case "verify":
		cmdVerify(os.Args[2:])
	case "check":
		os.Exit(cmdCheck(os.Args[2:]))
	case "slice":
		// govc slice <file.smt2> <depth>: print the relevance slice of a query (debugging aid)
		b, err := os.ReadFile(os.Args[2])
		if err != nil {
			fmt.Fprintln(os.Stderr, err)
			os.Exit(2)
		}
		d := 1
		if len(os.Args) > 3 {
			fmt.Sscan(os.Args[3], &d)
		}
		tol := 0.0
		if len(os.Args) > 4 {
			fmt.Sscan(os.Args[4], &tol)
		}
		fmt.Print(sliceQueryTol(string(b), d, tol))
	case "funcs":
		// govc funcs <pkg-pattern> <key-prefix>: list function keys (closures included)
		w, err := loadWorld("/repo", []string{os.Args[2]}, nil)
		if err != nil {
			fmt.Fprintln(os.Stderr, err)
			os.Exit(2)
		}
		var ks []string
		for k, f := range w.funcs {
			if strings.HasPrefix(k, os.Args[3]) {
				ks = append(ks, fmt.Sprintf("%s\t%s", k, w.prog.Fset.Position(f.Pos())))
			}
		}
		sort.Strings(ks)
		fmt.Println(strings.Join(ks, "\n"))
	default:
		fmt.Fprintln(os.Stderr, "unknown command")
		os.Exit(2)
	}
}

func pkgPatternsFor(cs []*Contract) []string {
	seen := map[string]bool{}
	var out []string
	for _, c := range cs {
		if c.Extern {
			continue
		}
		p := "./src/" + c.Pkg
		if !seen[p] {
			seen[p] = true
			out = append(out, p)
		}
	}
	sort.Strings(out)
	return out
}

// cmdVerify: debugging aid: verify the named functions and print every obligation.
func cmdVerify(args []string) {
	fs := flag.NewFlagSet("verify", flag.ExitOnError)
	root := fs.String("root", "/repo", "repository root")
	to := fs.Duration("timeout", 10*time.Second, "solver timeout")
	nocache := fs.Bool("nocache", false, "ignore cache")
	verbose := fs.Bool("v", false, "verbose")
	fs.Parse(args)
	cs, err := loadContracts(*root)
	if err != nil {
		fmt.Fprintln(os.Stderr, err)
		os.Exit(2)
	}
	var sel []*Contract
	for _, k := range fs.Args() {
		found := false
		for key, c := range cs.byKey {
			if key == k || strings.HasSuffix(key, "."+k) || strings.HasPrefix(key, k) {
				sel = append(sel, c)
				found = true
			}
		}
		if !found {
			fmt.Fprintln(os.Stderr, "no contract matches", k)
			os.Exit(2)
		}
	}
	t0 := time.Now()
	w, err := loadWorld(*root, pkgPatternsFor(sel), nil)
	if err != nil {
		fmt.Fprintln(os.Stderr, err)
		os.Exit(2)
	}
	fmt.Printf("loaded in %.1fs\n", time.Since(t0).Seconds())
	cfg := &SolverCfg{Timeout: *to, CacheDir: "/verif/.cache", OutDir: "/verif/.obligations/debug", NoCache: *nocache, Workers: 8}
	sort.Slice(sel, func(i, j int) bool { return sel[i].Key < sel[j].Key })
	for _, c := range sel {
		if c.Extern {
			continue
		}
		r := w.verifyFunc(c)
		if r.Err != nil {
			fmt.Printf("%s: ERROR %v\n", c.Key, r.Err)
			continue
		}
		solveAll(r.Obls, cfg)
		ok := 0
		for _, o := range r.Obls {
			good := o.Result == o.Expect
			if good {
				ok++
			}
			if !good || *verbose {
				fmt.Printf("  %-70s %-8s %-22s %.2fs %dB\n", o.Name, o.Result, o.Solver, o.Seconds, o.Bytes)
				if !good {
					fmt.Printf("      clause: %s\n      file: %s\n", o.Clause, o.File)
					if o.Model != "" && *verbose {
						fmt.Println(indent(firstN(o.Model, 60), "      "))
					}
				}
			}
		}
		fmt.Printf("%s: %d/%d obligations ok, %d smt lines, trusted=%d\n", c.Key, ok, len(r.Obls), r.Lines, len(r.Trusted))
		if *verbose {
			for _, t := range r.Trusted {
				fmt.Println("    trusted:", t)
			}
		}
	}
}

func firstN(s string, n int) string {
	ls := strings.Split(s, "\n")
	if len(ls) > n {
		ls = ls[:n]
	}
	return strings.Join(ls, "\n")
}

func indent(s, p string) string {
	return p + strings.ReplaceAll(s, "\n", "\n"+p)
}
