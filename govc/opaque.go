package main

import (
	"fmt"
	"strings"
)

// Opaque spec functions: uninterpreted SMT functions of integer arguments. The defining
// equation is added (as a quantified axiom) only in the VCs of contracts that `reveal` the
// function, which keeps nonlinear definitions out of every other proof. An opaque function
// declared [nonneg] may be used as a non-negative sum term; the fact "arguments >= 0 imply
// result >= 0" is itself proved, from the definition, in every VC that uses the function.

type opaqueInfo struct {
	f      string
	isBool bool
	np     int
}

func (e *SpecEnv) applyOpaque(s *SpecFn, args []*Node) *SVal {
	x := e.fr.x
	if len(args) != len(s.Params) {
		sfail("opaque spec %s expects %d arguments", s.Name, len(s.Params))
	}
	// In the VC of a contract that reveals the function it is an ordinary (transparent) spec
	// function: the whole VC then stays quantifier-free and failed obligations come with models.
	if c := x.w.contracts[x.fnKey]; c != nil {
		for _, r := range c.Reveal {
			if r == s.Name {
				t := *s
				t.Opaque = false
				return e.applySpec(&t, args)
			}
		}
	}
	var terms []string
	for _, a := range args {
		v := e.force(e.eval(a))
		k := kindOf(v.T)
		if v.F != nil || v.Term == "" || !(k == KInt || k == KSpecInt) {
			sfail("opaque spec %s: arguments must be integers (%s)", s.Name, a)
		}
		terms = append(terms, v.Term)
	}
	name := "spec:" + s.Pkg + "." + s.Name
	info := x.opaque[name]
	if info == nil {
		info = &opaqueInfo{np: len(s.Params)}
		x.opaque[name] = info
		// evaluate the body over formal parameters
		var formals, decl, nonnegs []string
		benv := &SpecEnv{fr: e.fr, vars: map[string]*SVal{}, heap: e.heap, old: e.old, pkg: e.pkg, specPkg: s.Pkg}
		for _, p := range e.fr.x.w.prog.AllPackages() {
			if shortPkg(p.Pkg.Path()) == s.Pkg {
				benv.pkg = p
			}
		}
		for i, p := range s.Params {
			f := fmt.Sprintf("o%d", i)
			formals = append(formals, f)
			decl = append(decl, "("+f+" Int)")
			nonnegs = append(nonnegs, sLe("0", f))
			benv.vars[p] = intVal(f)
		}
		bv := benv.force(benv.eval(s.Body))
		info.isBool = kindOf(bv.T) == KBool
		sorts := make([]string, len(formals))
		for i := range sorts {
			sorts[i] = "Int"
		}
		ret := "Int"
		if info.isBool {
			ret = "Bool"
		}
		info.f = x.em.Func(name, sorts, ret)
		app := sApp(info.f, formals...)
		revealed := false
		if c := x.w.contracts[x.fnKey]; c != nil {
			for _, r := range c.Reveal {
				if r == s.Name {
					revealed = true
				}
			}
		}
		if e.lemma != nil {
			revealed = true
		}
		if s.NonNeg && !info.isBool {
			// prove: arguments >= 0  ==>  body >= 0   (fresh constants, definition inlined)
			if !x.discover {
				var cs, ge []string
				sub := bv.Term
				for i := len(formals) - 1; i >= 0; i-- {
					c := x.em.Fresh("opq."+s.Name, "Int")
					cs = append(cs, c)
					ge = append(ge, sLe("0", c))
					sub = replaceSymbol(sub, formals[i], c)
				}
				x.obls = append(x.obls, &Obligation{Name: x.fnKey + "#opaque-nonneg:" + s.Name, Kind: "lemma", Fn: x.fnKey, Props: x.props,
					Pos: x.em.Mark(), Goal: sAnd(sAnd(ge...), sNot(sLe("0", sub))), Expect: "unsat", Clause: s.Src, em: x.em})
			}
			x.em.Assert("(forall (" + strings.Join(decl, " ") + ") (! (=> " + sAnd(nonnegs...) + " (<= 0 " + app + ")) :pattern (" + app + ")))")
		}
		if revealed {
			x.em.Assert("(forall (" + strings.Join(decl, " ") + ") (! (= " + app + " " + bv.Term + ") :pattern (" + app + ")))")
		}
	}
	if info.isBool {
		return boolVal(sApp(info.f, terms...))
	}
	return intVal(sApp(info.f, terms...))
}

// replaceSymbol replaces whole-token occurrences of sym in an s-expression.
func replaceSymbol(s, sym, by string) string {
	var b strings.Builder
	i := 0
	for i < len(s) {
		j := i
		for j < len(s) && s[j] != ' ' && s[j] != '(' && s[j] != ')' {
			j++
		}
		if j > i {
			tok := s[i:j]
			if tok == sym {
				b.WriteString(by)
			} else {
				b.WriteString(tok)
			}
			i = j
		} else {
			b.WriteByte(s[i])
			i++
		}
	}
	return b.String()
}
