package main

import (
	"fmt"
	"go/token"
	"go/types"
	"strings"

	"golang.org/x/tools/go/ssa"
)

// funcKey gives the contract key of an SSA function:
//   pkgpath.Func, pkgpath.Type.Method, and parent$N for closures (pkgpath shortened for /repo).
func funcKey(fn *ssa.Function) string {
	if fn.Parent() != nil {
		name := fn.Name() // e.g. CSRFCheck$1
		p := fn.Parent()
		for p.Parent() != nil {
			p = p.Parent()
		}
		pk := funcKey(p)
		// replace last component by closure name
		if i := strings.LastIndex(pk, "."); i >= 0 {
			// methods: pkg.Type.Method -> closure name is Method$1 under the same type
			base := pk[:i]
			return base + "." + name
		}
		return name
	}
	pkg := ""
	if fn.Pkg != nil {
		pkg = shortPkg(fn.Pkg.Pkg.Path())
	} else if fn.Object() != nil && fn.Object().Pkg() != nil {
		pkg = shortPkg(fn.Object().Pkg().Path())
	}
	if recv := fn.Signature.Recv(); recv != nil {
		t := recv.Type()
		if p, ok := t.(*types.Pointer); ok {
			t = p.Elem()
		}
		tn := t.String()
		if n, ok := t.(*types.Named); ok {
			tn = n.Obj().Name()
			if n.Obj().Pkg() != nil {
				pkg = shortPkg(n.Obj().Pkg().Path())
			}
		}
		return pkg + "." + tn + "." + fn.Name()
	}
	return pkg + "." + fn.Name()
}

func (fr *Frame) setResult(res ssa.Value, v *SVal) {
	if res != nil {
		fr.vals[res] = v
	}
	// remember the latest result per callee name (spec: resultof(Name, i)); kept in ghost
	// state so that it is merged along paths like any other state
	if fr.pendingCall != nil && !fr.inlined && v != nil {
		for _, n := range fr.pendingCall {
			if n == "" {
				continue
			}
			fr.x.resTypes[n] = v.T
			for k, l := range v.flat() {
				t := l.Term
				if t == "" && l.Loc != nil && l.Loc.Kind == LRef && len(l.Loc.Path) == 0 {
					t = l.Loc.Base
				}
				if t == "" {
					continue
				}
				srt := "Int"
				if l.T != nil {
					srt = sortOf(l.T)
				}
				fr.ghostSet(fmt.Sprintf("$res:%s:%d", n, k), srt, t)
			}
		}
		fr.pendingCall = nil
	}
}

func (fr *Frame) ghostSet(name, srt, term string) {
	fr.cur.sorts[name] = srt
	fr.cur.m[name] = term
	if fr.x.discover {
		for _, l := range fr.x.curLoops {
			fr.x.loopMods[l][name] = true
		}
	}
}

type callResult struct {
	v     *SVal
	block *ssa.BasicBlock
}

func (fr *Frame) call(in ssa.Instruction, cc *ssa.CallCommon, res ssa.Value) {
	fr.callInner(in, cc, res)
	fr.pendingCall = nil
}

func (fr *Frame) callInner(in ssa.Instruction, cc *ssa.CallCommon, res ssa.Value) {
	var rt types.Type = cc.Signature().Results()
	if cc.Signature().Results().Len() == 1 {
		rt = cc.Signature().Results().At(0).Type()
	}
	if b, ok := cc.Value.(*ssa.Builtin); ok {
		// builtins can be guarded too (guard[append] ...): arguments are callee_arg0, ...
		if !fr.inlined && fr.contract != nil {
			for _, g := range fr.contract.Guards {
				if g.Name != b.Name() {
					continue
				}
				env := fr.newEnv()
				env.contract = fr.contract
				env.at = fr.curBlock
				for i, a := range cc.Args {
					env.vars[fmt.Sprintf("callee_arg%d", i)] = fr.val(a)
				}
				fr.x.guardsSeen[g.Name] = true
				detail := b.Name()
				if g.Label != "" {
					detail += ":" + g.Label
				}
				fr.x.onlyProps = g.Only
				fr.oblige("guard", detail, fr.evalGuard(g, env), g.Src)
				fr.x.onlyProps = nil
			}
		}
		fr.builtin(b, cc, res)
		return
	}
	// call-site guards (guard dominance obligations)
	if !fr.inlined && fr.contract != nil && (len(fr.contract.Guards) > 0 || len(fr.contract.Checks) > 0) {
		name, qual := "", ""
		if cc.IsInvoke() {
			name = cc.Method.Name()
			if n, ok := cc.Value.Type().(*types.Named); ok {
				qual = n.Obj().Name() + "." + name
			}
		} else if f := cc.StaticCallee(); f != nil {
			name = f.Name()
			if recv := f.Signature.Recv(); recv != nil {
				t := recv.Type()
				if p, ok := t.(*types.Pointer); ok {
					t = p.Elem()
				}
				if n, ok := t.(*types.Named); ok {
					qual = n.Obj().Name() + "." + name
				}
			}
		} else if u, ok := cc.Value.(*ssa.UnOp); ok && u.Op == token.MUL {
			// a call through a function-typed variable (a closure kept in a local or captured
			// variable): guards and called() name the variable
			switch v := u.X.(type) {
			case *ssa.FreeVar:
				name = v.Name()
			case *ssa.Alloc:
				name = v.Comment
			}
		}
		fr.pendingCall = []string{name, qual}
		for _, g := range fr.contract.Guards {
			if g.Name != name && (qual == "" || g.Name != qual) {
				continue
			}
			env := fr.newEnv()
			env.contract = fr.contract
			env.at = fr.curBlock
			// the call's arguments are visible as callee_<parameter name>
			// ... and positionally as callee_arg0, callee_arg1, ... (interface methods, whose
			// parameters are often unnamed: the receiver is not counted)
			if f := cc.StaticCallee(); f != nil && !cc.IsInvoke() {
				for i, p := range f.Params {
					if i < len(cc.Args) {
						env.vars["callee_"+p.Name()] = fr.val(cc.Args[i])
					}
				}
			}
			for i, a := range cc.Args {
				env.vars[fmt.Sprintf("callee_arg%d", i)] = fr.val(a)
			}
			fr.x.guardsSeen[g.Name] = true
			detail := name
			if g.Label != "" {
				detail += ":" + g.Label
			}
			fr.x.onlyProps = g.Only
			fr.oblige("guard", detail, fr.evalGuard(g, env), g.Src)
			fr.x.onlyProps = nil
		}
		// ghost: remember that a function of this name has been called (spec: called(name))
		for _, nm := range []string{name, qual} {
			if nm == "" {
				continue
			}
			fr.cur.sorts["$called:"+nm] = "Bool"
			fr.cur.m["$called:"+nm] = "true"
			if fr.x.discover {
				for _, l := range fr.x.curLoops {
					fr.x.loopMods[l]["$called:"+nm] = true
				}
			}
		}
	}
	var args []*SVal
	var fn *ssa.Function
	if cc.IsInvoke() {
		recv := fr.val(cc.Value)
		for _, a := range cc.Args {
			args = append(args, fr.val(a))
		}
		fr.invoke(recv, cc, args, rt, res)
		return
	}
	fn = cc.StaticCallee()
	var bind []*SVal
	if fn == nil {
		fv := fr.val(cc.Value)
		if fv.Fn == nil {
			for _, a := range cc.Args {
				fr.val(a)
			}
			if pv, ok := cc.Value.(*ssa.Parameter); ok && !fr.inlined && fr.contract != nil && fr.contract.Callbacks[pv.Name()] {
				// declared callback: assumed not to write the heap; its result is arbitrary
				fr.x.trust("A-CALLBACK: calls through parameter " + pv.Name() + " assumed not to write the heap")
				if rt != nil && !isEmptyTuple(rt) {
					fr.setResult(res, fr.freshVal("cb", rt))
				}
				return
			}
			fr.unknownCall("call through function value "+cc.Value.Name(), rt, res)
			return
		}
		fn = fv.Fn
		bind = fv.Bind
	} else if mc, ok := cc.Value.(*ssa.MakeClosure); ok {
		for _, b := range mc.Bindings {
			bind = append(bind, fr.val(b))
		}
	}
	for _, a := range cc.Args {
		args = append(args, fr.val(a))
	}
	fr.curCallArgs = cc.Args
	fr.callFn(fn, bind, args, rt, res)
	fr.curCallArgs = nil
}

func (fr *Frame) callFn(fn *ssa.Function, bind, args []*SVal, rt types.Type, res ssa.Value) {
	x := fr.x
	key := funcKey(fn)
	full := fn.String()
	// 1. skip / abort tables
	switch classify(fn) {
	case "skip":
		x.trust("A-LOG/A-SEQ: call skipped: " + key)
		if rt != nil && !isEmptyTuple(rt) {
			v := fr.freshVal("skip."+fn.Name(), rt)
			fr.nonNilPtrs(v)
			fr.setResult(res, v)
		}
		return
	case "abort":
		if fr.x.topNoPanic() {
			fr.oblige("nopanic", "call:"+fn.Name(), "false", "")
		}
		fr.curReach = "false"
		if rt != nil && !isEmptyTuple(rt) {
			fr.setResult(res, fr.freshVal("abort", rt))
		}
		return
	}
	// 2. contract
	if c := x.w.contracts[key]; c != nil && !c.Inline {
		fr.callContract(fn, c, args, rt, res)
		return
	}
	// 3. special externals
	if fr.special(fn, full, args, rt, res) {
		return
	}
	// 4. inline
	if fn.Blocks != nil && x.depth < 6 && !x.onStack(fn) && (x.w.inRepo(fn) || x.w.inlineOK(full)) {
		c := x.w.contracts[key]
		if fr.canInline(fn, c) {
			fr.inline(fn, c, bind, args, rt, res)
			return
		}
	}
	fr.unknownCall(full, rt, res)
}

func isEmptyTuple(t types.Type) bool {
	tp, ok := t.(*types.Tuple)
	return ok && tp.Len() == 0
}

func (fr *Frame) nonNilPtrs(v *SVal) {
	for _, l := range v.flat() {
		if k := kindOf(l.T); (k == KPtr || k == KIface) && l.Term != "" {
			fr.x.em.Assert(sLt("0", l.Term))
		}
	}
}

func classify(fn *ssa.Function) string {
	full := fn.String()
	pkg := ""
	if fn.Pkg != nil {
		pkg = fn.Pkg.Pkg.Path()
	} else if fn.Object() != nil && fn.Object().Pkg() != nil {
		pkg = fn.Object().Pkg().Path()
	}
	name := fn.Name()
	if strings.Contains(pkg, "sirupsen/logrus") || strings.HasSuffix(pkg, "/util/logging") || pkg == "log" {
		if strings.HasPrefix(name, "Panic") || strings.HasPrefix(name, "Fatal") {
			return "abort"
		}
		return "skip"
	}
	if pkg == "sync" {
		switch name {
		case "Lock", "Unlock", "RLock", "RUnlock":
			return "skip"
		}
	}
	if pkg == "os" && name == "Exit" {
		return "abort"
	}
	_ = full
	return ""
}

func (x *Exec) onStack(fn *ssa.Function) bool {
	for _, f := range x.stack {
		if f == fn {
			return true
		}
	}
	return false
}

func (fr *Frame) canInline(fn *ssa.Function, c *Contract) bool {
	// loops need invariants
	for _, b := range fn.Blocks {
		for _, s := range b.Succs {
			if s.Dominates(b) {
				if c == nil || len(c.LoopInv) == 0 {
					return false
				}
			}
		}
		for _, in := range b.Instrs {
			switch in.(type) {
			case *ssa.Go, *ssa.Select, *ssa.Send, *ssa.MakeChan:
				return false
			}
		}
	}
	if fn.Recover != nil {
		return false
	}
	return true
}

func (fr *Frame) unknownCall(what string, rt types.Type, res ssa.Value) {
	fr.havocAll("unmodelled call " + what)
	if rt != nil && !isEmptyTuple(rt) {
		fr.setResult(res, fr.freshVal("unk", rt))
	}
}

// ---------------------------------------------------------------------------
// inlining

func (fr *Frame) inline(fn *ssa.Function, c *Contract, bind, args []*SVal, rt types.Type, res ssa.Value) {
	x := fr.x
	site := fn.Name()
	if fr.inlined {
		site = fr.site + ">" + fn.Name()
	}
	cf := x.newFrame(fn, c, true, site)
	cf.parent = fr
	for i, p := range fn.Params {
		if i < len(args) {
			cf.vals[p] = args[i]
			cf.params[p.Name()] = args[i]
		}
	}
	for i, fv := range fn.FreeVars {
		if i < len(bind) {
			cf.vals[fv] = bind[i]
			cf.params[fv.Name()] = bind[i]
		} else {
			panic(unsupported("closure %s called without bindings", fn))
		}
	}
	cf.entry = fr.cur
	cf.reach[fn.Blocks[0]] = fr.curReach
	x.depth++
	x.stack = append(x.stack, fn)
	cf.run()
	x.stack = x.stack[:len(x.stack)-1]
	x.depth--
	// merge returns
	if len(cf.rets) == 0 {
		fr.curReach = "false"
		if rt != nil && !isEmptyTuple(rt) {
			fr.setResult(res, fr.freshVal("noret", rt))
		}
		return
	}
	var reach []string
	for _, r := range cf.rets {
		reach = append(reach, r.reach)
	}
	nr := x.em.Def("reach.after."+fn.Name(), "Bool", sOr(reach...))
	// heap merge
	if len(cf.rets) == 1 {
		fr.cur = cf.rets[0].heap.clone()
	} else {
		fake := &Frame{x: x, out: map[*ssa.BasicBlock]*HeapState{}, edge: map[[2]*ssa.BasicBlock]string{}}
		var preds []*ssa.BasicBlock
		tgt := &ssa.BasicBlock{}
		for _, r := range cf.rets {
			b := &ssa.BasicBlock{}
			fake.out[b] = r.heap
			fake.edge[[2]*ssa.BasicBlock{b, tgt}] = r.reach
			preds = append(preds, b)
		}
		fr.cur = fake.mergeHeaps(preds, tgt)
	}
	fr.curReach = nr
	if rt == nil || isEmptyTuple(rt) {
		return
	}
	nres := len(cf.rets[0].vals)
	var merged []*SVal
	for k := 0; k < nres; k++ {
		v := cf.rets[len(cf.rets)-1].vals[k]
		for j := len(cf.rets) - 2; j >= 0; j-- {
			v = fr.iteVal(cf.rets[j].reach, cf.rets[j].vals[k], v)
		}
		merged = append(merged, v)
	}
	if nres == 1 {
		fr.setResult(res, merged[0])
	} else {
		fr.setResult(res, &SVal{T: rt, F: merged})
	}
}

// ---------------------------------------------------------------------------
// modular call against a contract

func (fr *Frame) callContract(fn *ssa.Function, c *Contract, args []*SVal, rt types.Type, res ssa.Value) {
	x := fr.x
	env := fr.newEnv()
	for i, p := range fn.Params {
		if i < len(args) {
			env.vars[p.Name()] = args[i]
		}
	}
	env.pkg = fn.Pkg
	env.contract = c
	if c.Assumed {
		x.trust("assumed contract: " + c.Key)
	} else {
		x.usedContracts[c.Key] = true
	}
	// implicit: pointer receiver non-nil
	if fn.Signature.Recv() != nil && len(args) > 0 && kindOf(args[0].T) == KPtr && args[0].Loc == nil && !c.NilRecvOK {
		fr.oblige("pre", fn.Name()+":recv-nonnil", sNot(sEq(args[0].Term, "0")), "")
	}
	for i, cl := range c.Requires {
		t := fr.evalBool(cl.Expr, env)
		fr.oblige("pre", fn.Name()+":"+cl.label(i), t, cl.Src)
	}
	old := fr.cur.clone()
	// havoc modified heaps
	if c.ModifiesAll || !c.HasModifies {
		// no modifies clause means no frame promise at all
		fr.havocAll("contract of " + c.Key + " has no modifies clause / modifies everything")
	} else {
		fr.cur = fr.cur.clone()
		for _, m := range c.Modifies {
			names := fr.resolveModifies(m, env)
			cell := fr.modCell(m, env)
			for _, n := range names {
				srt := fr.cur.sorts[n]
				if srt == "" {
					continue
				}
				if cell != "" && strings.HasPrefix(srt, "(Array Int ") {
					// only one cell of the heap may change
					cs := srt[len("(Array Int ") : len(srt)-1]
					fr.cur.m[n] = x.em.Def(n+".call", srt, sStore(x.heapGet(fr.cur, n, srt), cell, x.em.Fresh(n+".cell", cs)))
				} else {
					fr.cur.m[n] = x.em.Fresh(n+".call", srt)
				}
				if x.discover {
					// which argument names the modified cell? (lets an enclosing loop havoc only
					// that cell when the argument is loop-invariant)
					var root ssa.Value
					if cell != "" {
						for j, a := range args {
							if j >= len(fr.curCallArgs) {
								break
							}
							if (kindOf(a.T) == KSlice && a.F != nil && a.F[0].Term == cell) || (a.F == nil && a.Term == cell) {
								root = addrRoot(fr.curCallArgs[j])
							}
						}
					}
					for _, l := range x.curLoops {
						x.loopMods[l][n] = true
						if l.Parent() != fr.fn {
							root = nil
						}
						if x.loopRoots[l] == nil {
							x.loopRoots[l] = map[string][]ssa.Value{}
						}
						x.loopRoots[l][n] = append(x.loopRoots[l][n], root)
					}
				}
			}
		}
		// allocation counter may grow
		oa := x.heapGet(fr.cur, allocName, "Int")
		na := x.em.Fresh("$alloc.call", "Int")
		x.em.Assert(sLe(oa, na))
		fr.cur.m[allocName] = na
		if x.discover {
			for _, l := range x.curLoops {
				x.loopMods[l][allocName] = true
			}
		}
	}
	// results
	var rv *SVal
	if rt != nil && !isEmptyTuple(rt) {
		if c.Pure {
			rv = fr.pureResult(fn, args, rt)
		} else {
			rv = fr.freshVal("ret."+fn.Name(), rt)
			fr.assumeAllocated(rv, x.heapGet(fr.cur, allocName, "Int"))
		}
		fr.setResult(res, rv)
		bindResults(env, fn, rv)
	}
	env.heap = fr.cur
	env.old = old
	if c.NoReturn {
		fr.curReach = "false"
		return
	}
	for _, cl := range c.Ensures {
		t := fr.evalBool(cl.Expr, env)
		fr.assume(t)
	}
}

func bindResults(env *SpecEnv, fn *ssa.Function, rv *SVal) {
	rs := fn.Signature.Results()
	if rs.Len() == 1 {
		env.vars["r0"] = rv
		env.vars["result"] = rv
		if n := rs.At(0).Name(); n != "" && n != "_" {
			env.vars[n] = rv
		} else if isErrorType(rs.At(0).Type()) {
			if _, ok := env.vars["err"]; !ok {
				env.vars["err"] = rv
			}
		}
		return
	}
	for i := 0; i < rs.Len(); i++ {
		env.vars[fmt.Sprintf("r%d", i)] = rv.F[i]
		if n := rs.At(i).Name(); n != "" && n != "_" {
			env.vars[n] = rv.F[i]
		} else if i == rs.Len()-1 && isErrorType(rs.At(i).Type()) {
			if _, ok := env.vars["err"]; !ok {
				env.vars["err"] = rv.F[i]
			}
		}
	}
}

func isErrorType(t types.Type) bool {
	return types.Identical(t, types.Universe.Lookup("error").Type())
}

// pureResult: result leaves are uninterpreted functions of the argument leaves.
func (fr *Frame) pureResult(fn *ssa.Function, args []*SVal, rt types.Type) *SVal {
	x := fr.x
	key := funcKey(fn)
	sorts, terms := fr.pureInputs(x.w.contracts[key], fn, args, fr.cur)
	v := buildVal(rt, func(l Leaf) string {
		name := "pure:" + key
		if len(l.Path) > 0 {
			name += ":" + strings.Join(l.Path, ".")
		}
		f := x.em.Func(name, sorts, l.Sort)
		return x.em.Def("pure."+fn.Name(), l.Sort, sApp(f, terms...))
	})
	fr.assumeRanges(v)
	return v
}

// pureInputs lists the inputs of the uninterpreted function standing for a pure callee: every
// argument leaf, or, with a "depends" directive, the leaves of the listed expressions only.
func (fr *Frame) pureInputs(c *Contract, fn *ssa.Function, vals []*SVal, h *HeapState) (sorts, terms []string) {
	if c != nil && len(c.Depends) > 0 {
		env := &SpecEnv{fr: fr, vars: map[string]*SVal{}, heap: h, old: h, pkg: fn.Pkg, contract: c}
		for i, p := range fn.Params {
			if i < len(vals) {
				env.vars[p.Name()] = vals[i]
			}
		}
		for _, d := range c.Depends {
			v := env.force(env.eval(d))
			for _, l := range fr.pureArgLeavesTop(v, h, false) {
				sorts = append(sorts, l[0])
				terms = append(terms, l[1])
			}
		}
		return
	}
	for _, a := range vals {
		for _, l := range fr.pureArgLeaves2(a, h) {
			sorts = append(sorts, l[0])
			terms = append(terms, l[1])
		}
	}
	return
}

func (fr *Frame) pureArgLeavesTop(v *SVal, h *HeapState, top bool) [][2]string {
	save := fr.cur
	fr.cur = h
	defer func() { fr.cur = save }()
	return fr.pureArgLeavesD(v, top)
}

// pureArgLeaves flattens an argument for use as uninterpreted-function input. Slices
// contribute their contents (the backing row), offset and length; pointers contribute the
// pointee's leaves.
func (fr *Frame) pureArgLeaves(a *SVal) [][2]string { return fr.pureArgLeavesD(a, true) }

// (only a top-level pointer argument is dereferenced; pointers nested in structs are scalars)
func (fr *Frame) pureArgLeavesD(a *SVal, top bool) [][2]string {
	x := fr.x
	var out [][2]string
	switch kindOf(a.T) {
	case KSlice:
		if a.Row != "" {
			return [][2]string{{"(Array Int Int)", a.Row}, {"Int", a.F[1].Term}, {"Int", a.F[2].Term}}
		}
		et := elemType(a.T)
		for _, lf := range leavesOf(et) {
			name := "HA:" + typeKey(et)
			if len(lf.Path) > 0 {
				name += ":" + strings.Join(lf.Path, ".")
			}
			hs := heapSort(LElem, lf.Sort)
			out = append(out, [2]string{"(Array Int " + lf.Sort + ")", sSelect(x.heapGet(fr.cur, name, hs), a.F[0].Term)})
		}
		out = append(out, [2]string{"Int", a.F[1].Term}, [2]string{"Int", a.F[2].Term})
		return out
	case KPtr:
		pt, ok := a.T.Underlying().(*types.Pointer)
		if ok && top {
			var loc *Loc
			if a.Loc != nil {
				loc = a.Loc
			} else {
				loc = &Loc{Kind: LRef, Base: a.Term, Root: pt.Elem(), T: pt.Elem()}
			}
			v := fr.readLocIn(fr.cur, loc)
			return fr.pureArgLeavesD(v, false)
		}
		if ok && a.Loc != nil && a.Term == "" {
			return [][2]string{{"Int", "0"}}
		}
	}
	if a.F != nil {
		if kindOf(a.T) == KStruct {
			st := a.T.Underlying().(*types.Struct)
			for i, f := range a.F {
				if f.T == nil {
					f.T = st.Field(i).Type()
				}
				out = append(out, fr.pureArgLeavesD(f, false)...)
			}
			return out
		}
		for _, f := range a.F {
			out = append(out, fr.pureArgLeavesD(f, false)...)
		}
		return out
	}
	return [][2]string{{sortOf(a.T), a.Term}}
}

// ---------------------------------------------------------------------------
// interface method calls

func (fr *Frame) invoke(recv *SVal, cc *ssa.CallCommon, args []*SVal, rt types.Type, res ssa.Value) {
	x := fr.x
	m := cc.Method
	name := m.Name()
	// logging interfaces (logrus.FieldLogger, ...): no effect on program state (A-LOG)
	if n, ok := cc.Value.Type().(*types.Named); ok && n.Obj().Pkg() != nil {
		pp := n.Obj().Pkg().Path()
		if strings.Contains(pp, "sirupsen/logrus") || strings.HasSuffix(pp, "/util/logging") {
			x.trust("A-LOG/A-SEQ: call skipped: " + n.Obj().Name() + "." + name)
			if strings.HasPrefix(name, "Panic") || strings.HasPrefix(name, "Fatal") {
				if x.topNoPanic() {
					fr.oblige("nopanic", "call:"+name, "false", "")
				}
				fr.curReach = "false"
			}
			if rt != nil && !isEmptyTuple(rt) {
				v := fr.freshVal("skip."+name, rt)
				fr.nonNilPtrs(v)
				fr.setResult(res, v)
			}
			return
		}
	}
	fr.oblige("safe:nil", "invoke:"+name, sNot(sEq(recv.Term, "0")), "")
	// interface contract
	key := ""
	if n, ok := cc.Value.Type().(*types.Named); ok && n.Obj().Pkg() != nil {
		key = shortPkg(n.Obj().Pkg().Path()) + "." + n.Obj().Name() + "." + name
	} else if isErrorType(cc.Value.Type()) {
		key = "error." + name
	}
	if c := x.w.contracts[key]; c != nil {
		env := fr.newEnv()
		sig := m.Type().(*types.Signature)
		env.vars["recv"] = recv
		for i := 0; i < sig.Params().Len() && i < len(args); i++ {
			env.vars[sig.Params().At(i).Name()] = args[i]
		}
		x.trust("assumed interface contract: " + key)
		for i, cl := range c.Requires {
			fr.oblige("pre", name+":"+cl.label(i), fr.evalBool(cl.Expr, env), cl.Src)
		}
		old := fr.cur.clone()
		if c.ModifiesAll {
			fr.havocAll("interface contract " + key)
		}
		var rv *SVal
		if rt != nil && !isEmptyTuple(rt) {
			if c.Pure {
				var sorts, terms []string
				sorts = append(sorts, "Int")
				terms = append(terms, recv.Term)
				for _, a := range args {
					for _, l := range fr.pureArgLeaves(a) {
						sorts = append(sorts, l[0])
						terms = append(terms, l[1])
					}
				}
				rv = buildVal(rt, func(l Leaf) string {
					nm := "pure:" + key
					if len(l.Path) > 0 {
						nm += ":" + strings.Join(l.Path, ".")
					}
					return sApp(x.em.Func(nm, sorts, l.Sort), terms...)
				})
				fr.assumeRanges(rv)
			} else {
				rv = fr.freshVal("ret."+name, rt)
			}
			fr.setResult(res, rv)
			rs := sig.Results()
			if rs.Len() == 1 {
				env.vars["r0"] = rv
				env.vars["result"] = rv
			} else {
				for i := 0; i < rs.Len(); i++ {
					env.vars[fmt.Sprintf("r%d", i)] = rv.F[i]
				}
			}
		}
		env.heap = fr.cur
		env.old = old
		for _, cl := range c.Ensures {
			fr.assume(fr.evalBool(cl.Expr, env))
		}
		return
	}
	switch name {
	case "Error", "String":
		if len(args) == 0 {
			x.trust("A-LOG: " + name + "() on interface values returns an arbitrary string, no effect")
			f := x.em.Func("iface."+name, []string{"Int"}, "Str")
			fr.setResult(res, leaf(rt, sApp(f, recv.Term)))
			return
		}
	}
	fr.unknownCall("interface method "+key+" ("+cc.Value.Type().String()+"."+name+")", rt, res)
}

// ---------------------------------------------------------------------------
// builtins

func (fr *Frame) builtin(b *ssa.Builtin, cc *ssa.CallCommon, res ssa.Value) {
	x := fr.x
	var args []*SVal
	for _, a := range cc.Args {
		args = append(args, fr.val(a))
	}
	var rt types.Type
	if res != nil {
		rt = res.Type()
	}
	switch b.Name() {
	case "len":
		a := args[0]
		switch kindOf(a.T) {
		case KSlice:
			fr.setResult(res, leaf(rt, a.F[2].Term))
		case KStr:
			x.declStrEmpty()
			fr.setResult(res, leaf(rt, "(strlen "+a.Term+")"))
		case KMap:
			t := fr.mapLen(fr.cur, a)
			t = sIte(sEq(a.Term, "0"), "0", t)
			fr.assume(sLe("0", t))
			// len is the cardinality of the domain; the consequence used by "if len(m) == 0":
			// a map that contains some key has positive length
			mh := fr.mapInfo(a.T)
			dom := x.em.Def("len.dom", "(Array "+mh.kSort+" Bool)", sSelect(x.heapGet(fr.cur, mh.dom, mh.domS), a.Term))
			if !strings.HasPrefix(dom, "len.dom") {
				c := x.em.Fresh("len.dom", "(Array "+mh.kSort+" Bool)")
				x.em.Assert(sEq(c, dom))
				dom = c
			}
			fr.assume("(forall ((k " + mh.kSort + ")) (! (=> (select " + dom + " k) (<= 1 " + t + ")) :pattern ((select " + dom + " k))))")
			fr.setResult(res, leaf(rt, t))
		case KArray:
			fr.setResult(res, leaf(rt, sInt(a.T.Underlying().(*types.Array).Len())))
		case KPtr:
			fr.setResult(res, leaf(rt, sInt(a.T.Underlying().(*types.Pointer).Elem().Underlying().(*types.Array).Len())))
		default:
			panic(unsupported("len of %s", a.T))
		}
	case "cap":
		a := args[0]
		switch kindOf(a.T) {
		case KSlice:
			fr.setResult(res, leaf(rt, a.F[3].Term))
		case KArray:
			fr.setResult(res, leaf(rt, sInt(a.T.Underlying().(*types.Array).Len())))
		default:
			panic(unsupported("cap of %s", a.T))
		}
	case "append":
		// (writes go to the backing array of the first operand, or to a fresh array)
		fr.storeRoot = cc.Args[0]
		if v, ok := res.(ssa.Value); ok {
			fr.storeRootExtra = v
		}
		r := fr.appendSlice(args[0], args[1], rt)
		fr.storeRoot, fr.storeRootExtra = nil, nil
		fr.setResult(res, r)
	case "copy":
		fr.storeRoot = addrRoot(cc.Args[0])
		r := fr.copySlice(args[0], args[1])
		fr.storeRoot = nil
		fr.setResult(res, r)
	case "delete":
		fr.storeRoot = cc.Args[0]
		fr.mapDelete(args[0], args[1])
		fr.storeRoot = nil
	case "print", "println", "close":
	case "ssa:wrapnilchk":
		fr.oblige("safe:nil", "wrapnilchk", sNot(sEq(args[0].Term, "0")), "")
		fr.setResult(res, args[0])
	case "min", "max":
		a, c := args[0].Term, args[1].Term
		if b.Name() == "min" {
			fr.setResult(res, leaf(rt, sIte(sLe(a, c), a, c)))
		} else {
			fr.setResult(res, leaf(rt, sIte(sLe(a, c), c, a)))
		}
	default:
		panic(unsupported("builtin %s", b.Name()))
	}
}

// elemHeaps lists (heap name, sort, leaf) for the element heaps of slice type t.
func elemHeaps(et types.Type) []struct {
	name, sort string
	lf         Leaf
} {
	var out []struct {
		name, sort string
		lf         Leaf
	}
	for _, lf := range leavesOf(et) {
		name := "HA:" + typeKey(et)
		if len(lf.Path) > 0 {
			name += ":" + strings.Join(lf.Path, ".")
		}
		out = append(out, struct {
			name, sort string
			lf         Leaf
		}{name, heapSort(LElem, lf.Sort), lf})
	}
	return out
}

// appendSlice models append(s, t...) exactly: in place when capacity suffices, otherwise a
// fresh backing array that starts with the old contents.
func (fr *Frame) appendSlice(s, t *SVal, rt types.Type) *SVal {
	x := fr.x
	if kindOf(t.T) == KStr {
		// append([]byte, string...)
		t = fr.convert(t, s.T)
	}
	et := elemType(s.T)
	sArr, sOff, sLen, sCap := s.F[0].Term, s.F[1].Term, s.F[2].Term, s.F[3].Term
	tArr, tOff, tLen := t.F[0].Term, t.F[1].Term, t.F[2].Term
	n := x.em.Def("append.n", "Int", sAdd(sLen, tLen))
	fits := x.em.Def("append.fits", "Bool", sLe(n, sCap))
	fresh := fr.freshRef("append")
	ncap := x.em.Fresh("append.cap", "Int")
	x.em.Assert(sAnd(sLe(n, ncap), sLe(ncap, maxSliceLen)))
	fr.assume(sLe(n, maxSliceLen))
	rArr := x.em.Def("append.arr", "Int", sIte(fits, sArr, fresh))
	rOff := x.em.Def("append.off", "Int", sIte(fits, sOff, "0"))
	rCap := x.em.Def("append.cap", "Int", sIte(fits, sCap, ncap))
	// number of appended elements, when statically known
	k := -1
	if v, ok := isIntLit(tLen); ok && v.IsInt64() && v.Int64() <= 8 {
		k = int(v.Int64())
	}
	for _, eh := range elemHeaps(et) {
		h := x.heapGet(fr.cur, eh.name, eh.sort)
		rowS := "(Array Int " + eh.lf.Sort + ")"
		oldRow := sSelect(h, sArr)
		srcRow := sSelect(h, tArr)
		// row of the result array
		var newRow string
		if k >= 0 {
			// in place: store k elements after the old length
			inpl := oldRow
			for j := 0; j < k; j++ {
				inpl = sStore(inpl, sAdd(sAdd(sOff, sLen), sInt(int64(j))), sSelect(srcRow, sAdd(tOff, sInt(int64(j)))))
			}
			// fresh: prefix copied (quantified), then k elements
			fr0 := x.em.Fresh("append.row", rowS)
			x.em.Assert(fmt.Sprintf("(forall ((j Int)) (! (=> (and (<= 0 j) (< j %s)) (= (select %s j) (select %s (+ %s j)))) :pattern ((select %s j))))", sLen, fr0, oldRow, sOff, fr0))
			frr := fr0
			for j := 0; j < k; j++ {
				frr = sStore(frr, sAdd(sLen, sInt(int64(j))), sSelect(srcRow, sAdd(tOff, sInt(int64(j)))))
			}
			newRow = x.em.Def("append.row", rowS, sIte(fits, inpl, frr))
			// consequences that hold in both cases, stated in the form in which loop
			// invariants index the result (result offset + j): old elements are preserved
			// and the appended ones follow them
			x.em.Assert(fmt.Sprintf("(forall ((j Int)) (! (=> (and (<= 0 j) (< j %s)) (= (select %s (+ %s j)) (select %s (+ %s j)))) :pattern ((select %s (+ %s j)))))",
				sLen, newRow, rOff, oldRow, sOff, newRow, rOff))
			for j := 0; j < k; j++ {
				x.em.Assert(sEq(sSelect(newRow, sAdd(rOff, sAdd(sLen, sInt(int64(j))))), sSelect(srcRow, sAdd(tOff, sInt(int64(j))))))
			}
		} else {
			nr := x.em.Fresh("append.row", rowS)
			// prefix preserved
			x.em.Assert(fmt.Sprintf("(forall ((j Int)) (! (=> (and (<= 0 j) (< j %s)) (= (select %s (+ %s j)) (select %s (+ %s j)))) :pattern ((select %s (+ %s j)))))", sLen, nr, rOff, oldRow, sOff, nr, rOff))
			// appended part
			x.em.Assert(fmt.Sprintf("(forall ((j Int)) (! (=> (and (<= 0 j) (< j %s)) (= (select %s (+ %s %s j)) (select %s (+ %s j)))) :pattern ((select %s (+ %s %s j)))))", tLen, nr, rOff, sLen, srcRow, tOff, nr, rOff, sLen))
			// in place: everything outside the appended window is unchanged
			x.em.Assert(sImp(fits, fmt.Sprintf("(forall ((j Int)) (! (=> (or (< j (+ %s %s)) (>= j (+ %s %s))) (= (select %s j) (select %s j))) :pattern ((select %s j))))", sOff, sLen, sOff, n, nr, oldRow, nr)))
			newRow = nr
		}
		fr.heapSet(eh.name, eh.sort, sStore(h, rArr, newRow))
	}
	return &SVal{T: rt, F: []*SVal{leaf(intType, rArr), leaf(intType, rOff), leaf(intType, n), leaf(intType, rCap)}}
}

func (fr *Frame) copySlice(dst, src *SVal) *SVal {
	x := fr.x
	if kindOf(src.T) == KStr {
		src = fr.convert(src, dst.T)
	}
	et := elemType(dst.T)
	dArr, dOff, dLen := dst.F[0].Term, dst.F[1].Term, dst.F[2].Term
	sArr, sOff, sLen := src.F[0].Term, src.F[1].Term, src.F[2].Term
	n := x.em.Def("copy.n", "Int", sIte(sLe(dLen, sLen), dLen, sLen))
	// statically known small length: explicit element stores instead of a quantified row
	small := -1
	if a, ok := isIntLit(dLen); ok {
		if b, ok := isIntLit(sLen); ok && a.IsInt64() && b.IsInt64() {
			m := a.Int64()
			if b.Int64() < m {
				m = b.Int64()
			}
			if m >= 0 && m <= 80 {
				small = int(m)
				n = sInt(m)
			}
		}
	}
	for _, eh := range elemHeaps(et) {
		h := x.heapGet(fr.cur, eh.name, eh.sort)
		rowS := "(Array Int " + eh.lf.Sort + ")"
		oldRow := sSelect(h, dArr)
		srcRow := sSelect(h, sArr)
		if small >= 0 {
			src0 := x.em.Def("copy.src", rowS, srcRow)
			nr := oldRow
			for j := 0; j < small; j++ {
				nr = sStore(nr, sAdd(dOff, sInt(int64(j))), sSelect(src0, sAdd(sOff, sInt(int64(j)))))
			}
			nrd := x.em.Def("copy.row", rowS, nr)
			fr.heapSet(eh.name, eh.sort, sStore(h, dArr, nrd))
			if origin, ok := x.snap[dArr]; ok && len(eh.lf.Path) == 0 {
				fr.writeLoc(origin, leaf(origin.T, nrd))
			}
			continue
		}
		nr := x.em.Fresh("copy.row", rowS)
		x.em.Assert(fmt.Sprintf("(forall ((j Int)) (! (= (select %s j) (ite (and (<= %s j) (< j (+ %s %s))) (select %s (+ %s (- j %s))) (select %s j))) :pattern ((select %s j))))",
			nr, dOff, dOff, n, srcRow, sOff, dOff, oldRow, nr))
		fr.heapSet(eh.name, eh.sort, sStore(h, dArr, nr))
		// destination is a snapshot of an array embedded in a struct: write the array back
		if origin, ok := x.snap[dArr]; ok && len(eh.lf.Path) == 0 {
			fr.writeLoc(origin, leaf(origin.T, nr))
		}
	}
	return leaf(intType, n)
}

// evalGuard evaluates a guard/check expression; if it no longer binds (it names the result of a
// call that is gone, a local that disappeared, ...) the obligation is not dropped: it becomes an
// obligation that cannot be discharged, and the reason is recorded.
func (fr *Frame) evalGuard(g *Clause, env *SpecEnv) (cond string) {
	defer func() {
		if r := recover(); r != nil {
			sf, ok := r.(specFail)
			if !ok {
				panic(r)
			}
			fr.x.bindFail["guard of "+fr.x.fnKey+" does not bind: "+sf.msg+" ("+g.Src+")"] = true
			cond = "false"
		}
	}()
	return fr.evalBool(g.Expr, env)
}
