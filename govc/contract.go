package main

import (
	"bufio"
	"fmt"
	"os"
	"path/filepath"
	"regexp"
	"sort"
	"strconv"
	"strings"
)

type Clause struct {
	Name  string
	Label string
	Only  []string // if set: the clause belongs only to these properties
	Expr  *Node
	Src   string
}

func (c *Clause) label(i int) string {
	if c.Name != "" {
		return c.Name
	}
	return strconv.Itoa(i)
}

type SpecFn struct {
	Opaque bool
	NonNeg bool
	Pkg    string
	Name   string
	Params []string
	Body   *Node
	Src    string
}

type Lemma struct {
	Name    string
	Vars    []string // "name:type" (type: int, or a Go type name resolvable in the package)
	Assumes []*Clause
	Shows   []*Clause
	Props   []string
	File    string
	Pkg     string
	Specs   map[string]*SpecFn
	Uses    []string // contracts of these functions are instantiated as assumptions
	UseStmts []string
}

type Contract struct {
	Key         string
	File        string
	Pkg         string // short package path
	Props       []string
	Requires    []*Clause
	Ensures     []*Clause
	Modifies    []*Node
	ModifiesAll bool
	HasModifies bool
	LoopInv     map[int][]*Clause
	Specs       map[string]*SpecFn
	NoOverflow  bool
	NoPanic     bool
	Inline      bool
	Assumed     bool
	Pure        bool
	Depends     []*Node // pure: the result is a function of these expressions only (default: all arguments)
	NoReturn    bool
	NilRecvOK   bool
	Extern      bool
	Bounded     string
	Known       map[string]string // clause-name -> finding id (informational)
	Line        int
	Ghost       []string
	Hints       []*Clause
	Reveal      []string
	Guards      []*Clause
	Checks      []*Clause
	Lenient     bool
	// closures: facts about the captured variables and the creator's parameters, proved where the
	// closure is created and assumed in its body
	Captures []*Clause
	// function-typed parameters whose calls are assumed not to write the heap (A-CALLBACK)
	Callbacks map[string]bool
	// lenient contracts: index, slice-bounds and make-length conditions are proved all the same
	Bounds bool
}

type ContractSet struct {
	byKey    map[string]*Contract
	pkgSpecs map[string]map[string]*SpecFn // pkg -> specs
	pkgFacts map[string][]*Clause          // pkg -> facts established by package initialisation (assumed)
	lemmas   []*Lemma
	files    []string
}

var directiveRe = regexp.MustCompile(`^([a-z-]+)(\[[A-Za-z0-9_.:@,$-]+\])?(\s+|$)`)

var knownDirectives = map[string]bool{"func": true, "extern": true, "property": true, "requires": true, "ensures": true,
	"modifies": true, "loop": true, "spec": true, "nooverflow": true, "nopanic": true, "inline": true, "assume": true, "pure": true,
	"noreturn": true, "nilrecv": true, "lemma": true, "var": true, "assumes": true, "shows": true, "uses": true, "iface": true,
	"bounded": true, "note": true, "ghost": true, "hint": true, "package": true, "opaque": true, "reveal": true, "guard": true, "check": true, "lenient": true, "depends": true, "captures": true, "initfact": true, "callback": true, "bounds": true}

// loadContracts parses every zz_verif_contracts.go below root/src.
func loadContracts(root string) (*ContractSet, error) {
	cs := &ContractSet{byKey: map[string]*Contract{}, pkgSpecs: map[string]map[string]*SpecFn{}}
	var files []string
	filepath.Walk(filepath.Join(root, "src"), func(p string, info os.FileInfo, err error) error {
		if err == nil && !info.IsDir() && strings.HasPrefix(info.Name(), "zz_verif_contracts") && strings.HasSuffix(info.Name(), ".go") {
			files = append(files, p)
		}
		return nil
	})
	sort.Strings(files)
	cs.files = files
	for _, f := range files {
		rel, _ := filepath.Rel(filepath.Join(root, "src"), filepath.Dir(f))
		if err := cs.parseFile(f, rel); err != nil {
			return nil, err
		}
	}
	return cs, nil
}

func (cs *ContractSet) parseFile(path, pkg string) error {
	fh, err := os.Open(path)
	if err != nil {
		return err
	}
	defer fh.Close()
	type dir struct {
		kw, name, text string
		line           int
	}
	var dirs []*dir
	sc := bufio.NewScanner(fh)
	sc.Buffer(make([]byte, 1<<20), 1<<20)
	ln := 0
	for sc.Scan() {
		ln++
		line := strings.TrimSpace(sc.Text())
		if !strings.HasPrefix(line, "//@") {
			continue
		}
		body := strings.TrimSpace(line[3:])
		if body == "" {
			continue
		}
		m := directiveRe.FindStringSubmatch(body)
		if m != nil && knownDirectives[m[1]] {
			name := strings.Trim(m[2], "[]")
			dirs = append(dirs, &dir{kw: m[1], name: name, text: strings.TrimSpace(body[len(m[0]):]), line: ln})
		} else {
			if len(dirs) == 0 {
				return fmt.Errorf("%s:%d: continuation without directive", path, ln)
			}
			dirs[len(dirs)-1].text += " " + body
		}
	}
	var cur *Contract
	var lem *Lemma
	if cs.pkgSpecs[pkg] == nil {
		cs.pkgSpecs[pkg] = map[string]*SpecFn{}
	}
	perr := func(d *dir, err error) error { return fmt.Errorf("%s:%d: %v", path, d.line, err) }
	for _, d := range dirs {
		switch d.kw {
		case "func", "extern", "iface":
			key := d.text
			if d.kw == "func" {
				key = pkg + "." + d.text
			}
			if cs.byKey[key] != nil {
				return perr(d, fmt.Errorf("duplicate contract for %s", key))
			}
			cur = &Contract{Key: key, File: path, Pkg: pkg, LoopInv: map[int][]*Clause{}, Specs: map[string]*SpecFn{}, Line: d.line, Known: map[string]string{}}
			if d.kw != "func" {
				cur.Assumed = true
				cur.Extern = true
			}
			cs.byKey[key] = cur
			lem = nil
			continue
		case "lemma":
			lem = &Lemma{Name: d.text, File: path, Pkg: pkg, Specs: map[string]*SpecFn{}}
			cs.lemmas = append(cs.lemmas, lem)
			cur = nil
			continue
		case "initfact":
			// a fact about package-level variables that holds once the package's initialisers
			// have run (assumed wherever one of the variables it names is loaded)
			n, err := parseSpec(d.text)
			if err != nil {
				return perr(d, err)
			}
			if cs.pkgFacts == nil {
				cs.pkgFacts = map[string][]*Clause{}
			}
			cs.pkgFacts[pkg] = append(cs.pkgFacts[pkg], &Clause{Expr: n, Src: d.text})
			continue
		case "spec", "opaque":
			sf, err := parseSpecFn(d.text)
			if err != nil {
				return perr(d, err)
			}
			sf.Pkg = pkg
			if d.kw == "opaque" {
				// an uninterpreted function of scalar arguments; its definition is visible only
				// to contracts that say "reveal <name>"; [nonneg] adds a proof obligation
				// (generated where it is revealed) that the body is >= 0 for arguments >= 0
				sf.Opaque = true
				sf.NonNeg = d.name == "nonneg"
				cs.pkgSpecs[pkg][sf.Name] = sf
				continue
			}
			if cur != nil {
				cur.Specs[sf.Name] = sf
			} else if lem != nil {
				lem.Specs[sf.Name] = sf
			} else {
				cs.pkgSpecs[pkg][sf.Name] = sf
			}
			continue
		case "note":
			continue
		case "package":
			// back to package level: following spec directives are package-wide
			cur, lem = nil, nil
			continue
		}
		if lem != nil {
			switch d.kw {
			case "property":
				lem.Props = append(lem.Props, strings.Fields(d.text)...)
			case "var":
				lem.Vars = append(lem.Vars, strings.Fields(d.text)...)
			case "uses":
				lem.UseStmts = append(lem.UseStmts, d.text)
			case "assumes", "shows":
				n, err := parseSpec(d.text)
				if err != nil {
					return perr(d, err)
				}
				cl := &Clause{Name: d.name, Expr: n, Src: d.text}
				if d.kw == "assumes" {
					lem.Assumes = append(lem.Assumes, cl)
				} else {
					lem.Shows = append(lem.Shows, cl)
				}
			default:
				return perr(d, fmt.Errorf("directive %s not allowed in lemma", d.kw))
			}
			continue
		}
		if cur == nil {
			return perr(d, fmt.Errorf("directive %s outside func", d.kw))
		}
		switch d.kw {
		case "property":
			cur.Props = append(cur.Props, strings.Fields(d.text)...)
		case "requires", "ensures", "captures":
			n, err := parseSpec(d.text)
			if err != nil {
				return perr(d, err)
			}
			cl := &Clause{Name: d.name, Expr: n, Src: d.text}
			if d.kw == "captures" {
				cur.Captures = append(cur.Captures, cl)
			} else if d.kw == "requires" {
				cur.Requires = append(cur.Requires, cl)
			} else {
				cur.Ensures = append(cur.Ensures, cl)
			}
		case "modifies":
			cur.HasModifies = true
			if d.text == "nothing" {
				continue
			}
			if d.text == "*" || d.text == "everything" {
				cur.ModifiesAll = true
				continue
			}
			for _, part := range splitTop(d.text) {
				n, err := parseSpec(part)
				if err != nil {
					return perr(d, err)
				}
				cur.Modifies = append(cur.Modifies, n)
			}
		case "loop":
			f := strings.Fields(d.text)
			if len(f) < 3 || f[1] != "invariant" {
				return perr(d, fmt.Errorf("expected: loop <n> invariant <expr>"))
			}
			k, err := strconv.Atoi(f[0])
			if err != nil {
				return perr(d, err)
			}
			src := strings.TrimSpace(strings.SplitN(d.text, "invariant", 2)[1])
			n, err := parseSpec(src)
			if err != nil {
				return perr(d, err)
			}
			cur.LoopInv[k] = append(cur.LoopInv[k], &Clause{Name: d.name, Expr: n, Src: src})
		case "nooverflow":
			cur.NoOverflow = true
		case "nopanic":
			cur.NoPanic = true
		case "inline":
			cur.Inline = true
		case "assume":
			cur.Assumed = true
		case "pure":
			cur.Pure = true
		case "depends":
			for _, part := range splitTop(d.text) {
				n, err := parseSpec(part)
				if err != nil {
					return perr(d, err)
				}
				cur.Depends = append(cur.Depends, n)
			}
		case "noreturn":
			cur.NoReturn = true
		case "nilrecv":
			cur.NilRecvOK = true
		case "lenient":
			cur.Lenient = true
		case "bounds":
			cur.Bounds = true
		case "callback":
			if cur.Callbacks == nil {
				cur.Callbacks = map[string]bool{}
			}
			for _, f := range strings.Fields(d.text) {
				cur.Callbacks[f] = true
			}
		case "bounded":
			cur.Bounded = d.text
		case "ghost":
			cur.Ghost = append(cur.Ghost, strings.Fields(d.text)...)
		case "check":
			// check[name] expr: like ensures, but evaluated only at the function's own returns
			// and allowed to name locals (a local that does not exist at a return stands for an
			// arbitrary value there); not visible to callers
			n, err := parseSpec(d.text)
			if err != nil {
				return perr(d, err)
			}
			cur.Checks = append(cur.Checks, &Clause{Name: d.name, Expr: n, Src: d.text})
		case "guard":
			// guard[callee] expr: an obligation at every call of `callee` inside this function
			// (guard dominance: the call happens only where expr holds); expr may name locals
			n, err := parseSpec(d.text)
			if err != nil {
				return perr(d, err)
			}
			if d.name == "" {
				return perr(d, fmt.Errorf("guard needs the callee name: guard[name] expr"))
			}
			// guard[callee:label]: the optional label names the obligation
			gname, glabel := d.name, ""
			if i := strings.Index(gname, ":"); i >= 0 {
				gname, glabel = gname[:i], gname[i+1:]
			}
			// label@C04,C05 restricts the obligation to those properties' checks
			var only []string
			if i := strings.Index(glabel, "@"); i >= 0 {
				only = strings.Split(glabel[i+1:], ",")
				glabel = glabel[:i]
			}
			cur.Guards = append(cur.Guards, &Clause{Name: gname, Label: glabel, Expr: n, Src: d.text, Only: only})
		case "reveal":
			cur.Reveal = append(cur.Reveal, strings.Fields(d.text)...)
		case "hint":
			// a theorem instance (sumext(...)) asserted at every return; only theorem
			// builtins are accepted, so a hint cannot introduce an assumption
			n, err := parseSpec(d.text)
			if err != nil {
				return perr(d, err)
			}
			if n.Op != "call" || n.Args[0].Op != "id" || n.Args[0].Name != "sumext" {
				return perr(d, fmt.Errorf("hint must be sumext(k, lo, hi, term1, term2)"))
			}
			cur.Hints = append(cur.Hints, &Clause{Name: d.name, Expr: n, Src: d.text})
		default:
			return perr(d, fmt.Errorf("unexpected directive %s", d.kw))
		}
	}
	return nil
}

func splitTop(s string) []string {
	var out []string
	d := 0
	st := 0
	for i := 0; i < len(s); i++ {
		switch s[i] {
		case '(', '[':
			d++
		case ')', ']':
			d--
		case ',':
			if d == 0 {
				out = append(out, strings.TrimSpace(s[st:i]))
				st = i + 1
			}
		}
	}
	if t := strings.TrimSpace(s[st:]); t != "" {
		out = append(out, t)
	}
	return out
}

var specFnRe = regexp.MustCompile(`^([A-Za-z_][A-Za-z0-9_]*)\s*\(([^)]*)\)\s*=\s*(.*)$`)

func parseSpecFn(text string) (*SpecFn, error) {
	m := specFnRe.FindStringSubmatch(text)
	if m == nil {
		return nil, fmt.Errorf("bad spec function %q", text)
	}
	sf := &SpecFn{Name: m[1], Src: text}
	for _, p := range strings.Split(m[2], ",") {
		p = strings.TrimSpace(p)
		if p != "" {
			sf.Params = append(sf.Params, p)
		}
	}
	n, err := parseSpec(m[3])
	if err != nil {
		return nil, err
	}
	sf.Body = n
	return sf, nil
}
