package main

import (
	"fmt"
	"go/token"
	"go/types"
	"os"
	"sort"
	"strings"

	"golang.org/x/tools/go/ssa"
)

// ---------------------------------------------------------------------------
// CFG analysis

func (fr *Frame) analyse() {
	fn := fr.fn
	fr.loops = map[*ssa.BasicBlock]*loopInfo{}
	fr.loopsOf = map[*ssa.BasicBlock][]*ssa.BasicBlock{}
	fr.debug = map[*ssa.BasicBlock][]*ssa.DebugRef{}
	// reachable blocks
	seen := map[*ssa.BasicBlock]bool{}
	var post []*ssa.BasicBlock
	var dfs func(b *ssa.BasicBlock)
	isBack := func(p, s *ssa.BasicBlock) bool { return s.Dominates(p) }
	dfs = func(b *ssa.BasicBlock) {
		seen[b] = true
		for _, s := range b.Succs {
			if isBack(b, s) {
				continue
			}
			if !seen[s] {
				dfs(s)
			}
		}
		post = append(post, b)
	}
	dfs(fn.Blocks[0])
	for i := len(post) - 1; i >= 0; i-- {
		fr.order = append(fr.order, post[i])
	}
	// natural loops
	for _, b := range fr.order {
		for _, s := range b.Succs {
			if isBack(b, s) {
				li := fr.loops[s]
				if li == nil {
					li = &loopInfo{header: s, body: map[*ssa.BasicBlock]bool{s: true}}
					fr.loops[s] = li
				}
				// add all nodes reaching b without passing s
				var stack []*ssa.BasicBlock
				if !li.body[b] {
					li.body[b] = true
					stack = append(stack, b)
				}
				for len(stack) > 0 {
					n := stack[len(stack)-1]
					stack = stack[:len(stack)-1]
					for _, p := range n.Preds {
						if !li.body[p] && seen[p] {
							li.body[p] = true
							stack = append(stack, p)
						}
					}
				}
			}
		}
	}
	// loop ordinals in source order (by position of header's first instruction / block index)
	var hs []*ssa.BasicBlock
	for h := range fr.loops {
		hs = append(hs, h)
	}
	sort.Slice(hs, func(i, j int) bool { return loopPos(hs[i]) < loopPos(hs[j]) })
	for i, h := range hs {
		fr.loops[h].ord = i + 1
		if os.Getenv("GOVC_LOOPS") != "" {
			fmt.Fprintf(os.Stderr, "loop %d of %s: header block %d at %s\n", i+1, fn.Name(), h.Index, fn.Prog.Fset.Position(token.Pos(loopPos(h))))
		}
	}
	for _, b := range fr.order {
		for _, h := range hs {
			if fr.loops[h].body[b] {
				fr.loopsOf[b] = append(fr.loopsOf[b], h)
			}
		}
	}
	for _, b := range fr.order {
		for _, in := range b.Instrs {
			if d, ok := in.(*ssa.DebugRef); ok {
				fr.debug[b] = append(fr.debug[b], d)
			}
		}
	}
}

func loopPos(h *ssa.BasicBlock) int {
	// position of the loop in source: smallest position of any instruction in the header,
	// falling back to block index.
	best := token.Pos(0)
	for _, in := range h.Instrs {
		if _, isPhi := in.(*ssa.Phi); isPhi {
			continue // a phi carries the position of the variable's declaration, not of the loop
		}
		if _, isDbg := in.(*ssa.DebugRef); isDbg {
			continue
		}
		if p := in.Pos(); p.IsValid() && (best == 0 || p < best) {
			best = p
		}
	}
	if best == 0 {
		// look at successors (range loops have positionless headers)
		for _, s := range h.Succs {
			for _, in := range s.Instrs {
				if p := in.Pos(); p.IsValid() && (best == 0 || p < best) {
					best = p
				}
			}
		}
	}
	if best == 0 {
		return 1<<30 + h.Index
	}
	return int(best)
}

// ---------------------------------------------------------------------------
// running a frame

func (x *Exec) newFrame(fn *ssa.Function, c *Contract, inlined bool, site string) *Frame {
	x.nFrames++
	fr := &Frame{x: x, fn: fn, id: fmt.Sprintf("%s.%d", fn.Name(), x.nFrames), vals: map[ssa.Value]*SVal{},
		reach: map[*ssa.BasicBlock]string{}, out: map[*ssa.BasicBlock]*HeapState{}, edge: map[[2]*ssa.BasicBlock]string{},
		contract: c, inlined: inlined, site: site, params: map[string]*SVal{}, dedupe: map[string]bool{}}
	if len(fn.Blocks) == 0 {
		panic(unsupported("function %s has no body", fn))
	}
	fr.analyse()
	return fr
}

func (fr *Frame) symName(v ssa.Value) string {
	return fr.id + "/" + v.Name()
}

// freshVal creates an unconstrained symbolic value of type t with range facts.
func (fr *Frame) freshVal(base string, t types.Type) *SVal {
	v := buildVal(t, func(l Leaf) string {
		n := base
		if len(l.Path) > 0 {
			n += "." + strings.Join(l.Path, ".")
		}
		return fr.x.em.Fresh(n, l.Sort)
	})
	fr.assumeRanges(v)
	return v
}

func (fr *Frame) mergeHeaps(preds []*ssa.BasicBlock, b *ssa.BasicBlock) *HeapState {
	x := fr.x
	type pe struct {
		h    *HeapState
		cond string
	}
	var ps []pe
	for _, p := range preds {
		ps = append(ps, pe{fr.out[p], fr.edge[[2]*ssa.BasicBlock{p, b}]})
	}
	if len(ps) == 1 {
		return ps[0].h.clone()
	}
	names := map[string]bool{}
	same := true
	for _, p := range ps {
		for n := range p.h.m {
			names[n] = true
		}
		if p.h.epoch != ps[0].h.epoch {
			same = false
		}
	}
	res := &HeapState{epoch: ps[0].h.epoch, m: map[string]string{}, sorts: ps[0].h.sorts}
	if !same {
		x.nFrames++
		res.epoch = 1000 + x.nFrames
	}
	var ns []string
	for n := range names {
		ns = append(ns, n)
	}
	sort.Strings(ns)
	for _, n := range ns {
		srt := res.sorts[n]
		t := x.heapGet(ps[len(ps)-1].h, n, srt)
		allSame := true
		for i := len(ps) - 2; i >= 0; i-- {
			ti := x.heapGet(ps[i].h, n, srt)
			if ti != t {
				allSame = false
			}
			t = sIte(ps[i].cond, ti, t)
		}
		if allSame {
			res.m[n] = x.heapGet(ps[0].h, n, srt)
		} else {
			res.m[n] = x.em.Def(n, srt, t)
		}
	}
	return res
}

func (fr *Frame) run() {
	x := fr.x
	for _, b := range fr.order {
		fr.curBlock = b
		li := fr.loops[b]
		var entryPreds []*ssa.BasicBlock
		for _, p := range b.Preds {
			if _, ok := fr.out[p]; !ok {
				continue // back edge or unreachable
			}
			if b.Dominates(p) {
				continue
			}
			entryPreds = append(entryPreds, p)
		}
		if b == fr.fn.Blocks[0] {
			fr.curReach = "true"
			if fr.reach[b] != "" {
				fr.curReach = fr.reach[b]
			}
			fr.cur = fr.entry.clone()
		} else {
			var cs []string
			for _, p := range entryPreds {
				cs = append(cs, fr.edge[[2]*ssa.BasicBlock{p, b}])
			}
			r := sOr(cs...)
			fr.curReach = x.em.Def("reach."+fr.id+"."+fmt.Sprint(b.Index), "Bool", r)
			fr.cur = fr.mergeHeaps(entryPreds, b)
		}
		fr.reach[b] = fr.curReach
		saveLoops := x.curLoops
		x.curLoops = append(append([]*ssa.BasicBlock{}, saveLoops...), fr.loopsOf[b]...)
		// phis
		phiEntry := map[*ssa.Phi]*SVal{}
		for _, in := range b.Instrs {
			phi, ok := in.(*ssa.Phi)
			if !ok {
				break
			}
			var v *SVal
			for i := len(b.Preds) - 1; i >= 0; i-- {
				p := b.Preds[i]
				isEntry := false
				for _, ep := range entryPreds {
					if ep == p {
						isEntry = true
					}
				}
				if !isEntry {
					continue
				}
				pv := fr.edgeVal(phi.Edges[i], p)
				if v == nil {
					v = pv
				} else {
					v = fr.iteVal(fr.edge[[2]*ssa.BasicBlock{p, b}], pv, v)
				}
			}
			if v == nil {
				panic(unsupported("phi without entry edges"))
			}
			v = fr.nameITE(v, "phi."+phi.Name())
			phiEntry[phi] = v
			fr.vals[phi] = v
		}
		if li != nil {
			fr.loopHeader(b, li, phiEntry)
		}
		for _, in := range b.Instrs {
			if _, ok := in.(*ssa.Phi); ok {
				continue
			}
			fr.instr(in)
		}
		fr.out[b] = fr.cur
		// back edges out of b: check invariants
		for _, s := range b.Succs {
			if s.Dominates(b) && fr.loops[s] != nil {
				fr.backEdge(b, s)
			}
		}
		x.curLoops = saveLoops
	}
}

// nameITE gives the if-then-else leaves of a merged value a name, so that every later mention
// of the value is the same small term (E-matching does not look through nested ite terms).
func (fr *Frame) nameITE(v *SVal, base string) *SVal {
	if v == nil {
		return v
	}
	if v.F != nil {
		n := *v
		n.F = make([]*SVal, len(v.F))
		for i, f := range v.F {
			n.F[i] = fr.nameITE(f, base)
		}
		return &n
	}
	if !strings.HasPrefix(v.Term, "(ite ") || v.T == nil {
		return v
	}
	srt := "Int"
	func() {
		defer func() { recover() }()
		srt = sortOf(v.T)
	}()
	n := *v
	n.Term = fr.x.em.Def(base, srt, v.Term)
	return &n
}

func (fr *Frame) edgeVal(v ssa.Value, from *ssa.BasicBlock) *SVal {
	return fr.val(v)
}

func (fr *Frame) iteVal(c string, a, b *SVal) *SVal {
	if a.F != nil || b.F != nil {
		if len(a.F) != len(b.F) {
			panic(unsupported("ite shape mismatch"))
		}
		r := &SVal{T: a.T}
		for i := range a.F {
			r.F = append(r.F, fr.iteVal(c, a.F[i], b.F[i]))
		}
		return r
	}
	if a.Loc != nil || b.Loc != nil {
		if a.Loc != nil && b.Loc != nil && a.Loc.Kind == LRef && b.Loc.Kind == LRef && len(a.Loc.Path) == 0 && len(b.Loc.Path) == 0 {
			return &SVal{T: a.T, Term: sIte(c, a.Loc.Base, b.Loc.Base)}
		}
		ta, tb := a.Term, b.Term
		if a.Loc != nil && a.Loc.Kind == LRef && len(a.Loc.Path) == 0 {
			ta = a.Loc.Base
		}
		if b.Loc != nil && b.Loc.Kind == LRef && len(b.Loc.Path) == 0 {
			tb = b.Loc.Base
		}
		if ta == "" || tb == "" {
			panic(unsupported("merge of interior pointers"))
		}
		return &SVal{T: a.T, Term: sIte(c, ta, tb)}
	}
	r := &SVal{T: a.T, Term: sIte(c, a.Term, b.Term)}
	if a.Fn != nil && a.Fn == b.Fn {
		r.Fn = a.Fn
		r.Bind = a.Bind
	}
	return r
}

// loopHeader: check invariants on entry, havoc loop-carried state, assume invariants.
func (fr *Frame) loopHeader(b *ssa.BasicBlock, li *loopInfo, phiEntry map[*ssa.Phi]*SVal) {
	x := fr.x
	invs := fr.invariantsFor(li)
	entryHeap := fr.cur
	// an address that escapes anywhere in the loop body has escaped in every later iteration
	for blk := range li.body {
		for _, in := range blk.Instrs {
			fr.noteEscapes(in)
		}
	}
	// 1. invariants hold on entry
	if !x.discover {
		for i, inv := range invs {
			c := fr.evalInvariant(inv, b, entryHeap)
			fr.oblige("inv-init", fmt.Sprintf("loop%d:%s", li.ord, inv.label(i)), c, inv.Src)
		}
	}
	if x.discover {
		x.loopMods[b] = map[string]bool{}
		return // single pass through the body, collecting modifications
	}
	mods := x.loopMods[b]
	// 2. havoc
	if mods["*"] {
		fr.havocAll("loop body contains an unmodelled call")
	} else {
		var ns []string
		for n := range mods {
			ns = append(ns, n)
		}
		sort.Strings(ns)
		allocAtHead := x.heapGet(entryHeap, allocName, "Int")
		fr.cur = fr.cur.clone()
		for _, n := range ns {
			srt := fr.cur.sorts[n]
			if srt == "" {
				continue
			}
			old := x.heapGet(fr.cur, n, srt)
			if cells := fr.stableCells(b, li, n); cells != nil && strings.HasPrefix(srt, "(Array Int ") {
				// only loop-invariant cells are written: havoc exactly those
				cs := srt[len("(Array Int ") : len(srt)-1]
				nv := old
				if fr.freshRoots {
					// besides the listed cells only cells allocated after the loop head change
					nv = x.em.Fresh(n+".loop", srt)
					guard := []string{sLe("r!fr", allocAtHead)}
					for _, c := range cells {
						guard = append(guard, sNot(sEq("r!fr", c)))
					}
					x.em.Assert("(forall ((r!fr Int)) (! (=> " + sAnd(guard...) + " (= (select " + nv + " r!fr) (select " + old + " r!fr))) :pattern ((select " + nv + " r!fr))))")
				}
				for _, c := range cells {
					row := x.em.Fresh(n+".cell", cs)
					nv = sStore(nv, c, row)
					// (non-escaping locals are not pointed to from maps or slices: see below)
					for _, la := range fr.locals {
						if fr.escaped[la.alloc] {
							continue
						}
						tk := typeKey(types.NewPointer(la.t))
						if (strings.HasPrefix(n, "HM:") && strings.HasSuffix(n, ":"+tk+":val")) || n == "HA:"+tk {
							ks := cs[len("(Array ") : len(cs)-len(" Int)")]
							x.em.Assert("(forall ((k!na " + ks + ")) (! (not (= (select " + row + " k!na) " + la.ref + ")) :pattern ((select " + row + " k!na))))")
						}
					}
				}
				fr.cur.m[n] = x.em.Def(n+".loop", srt, nv)
				continue
			}
			nv := x.em.Fresh(n+".loop", srt)
			fr.cur.m[n] = nv
			if n == allocName {
				x.em.Assert(sLe(old, nv))
			}
			// a local variable whose address never escapes is not what a pointer stored in
			// a map or slice points to, whatever the loop body did
			for _, la := range fr.locals {
				if fr.escaped[la.alloc] {
					continue
				}
				tk := typeKey(types.NewPointer(la.t))
				switch {
				case strings.HasPrefix(n, "HM:") && strings.HasSuffix(n, ":"+tk+":val"):
					ks := srt[len("(Array Int (Array ") : len(srt)-len(" Int))")]
					x.em.Assert("(forall ((m!na Int) (k!na " + ks + ")) (! (not (= (select (select " + nv + " m!na) k!na) " + la.ref + ")) :pattern ((select (select " + nv + " m!na) k!na))))")
				case n == "HA:"+tk:
					x.em.Assert("(forall ((a!na Int) (i!na Int)) (! (not (= (select (select " + nv + " a!na) i!na) " + la.ref + ")) :pattern ((select (select " + nv + " a!na) i!na))))")
				}
			}
		}
	}
	for _, in := range b.Instrs {
		phi, ok := in.(*ssa.Phi)
		if !ok {
			break
		}
		nm := phi.Comment
		if nm == "" {
			nm = phi.Name()
		}
		fr.vals[phi] = fr.freshVal(fr.id+"/"+nm, phi.Type())
		// references carried around the loop were allocated before this iteration
		fr.assumeAllocated(fr.vals[phi], x.heapGet(fr.cur, allocName, "Int"))
	}
	// built-in facts: range index bounds
	for _, in := range b.Instrs {
		phi, ok := in.(*ssa.Phi)
		if !ok {
			break
		}
		if phi.Comment == "rangeindex" {
			fr.assume(sLe("(- 1)", fr.vals[phi].Term))
			// upper bound: rangeindex < len, where len is the comparison operand in this block
			for _, in2 := range b.Instrs {
				if bo, ok := in2.(*ssa.BinOp); ok && bo.Op == token.LSS {
					if add, ok := bo.X.(*ssa.BinOp); ok && add.X == phi {
						if lv, ok := fr.vals[bo.Y]; ok {
							fr.assume(sLt(fr.vals[phi].Term, lv.Term))
						} else if cst, isC := bo.Y.(*ssa.Const); isC {
							// (range over an array: the length is a constant)
							fr.assume(sLt(fr.vals[phi].Term, fr.val(cst).Term))
						}
					}
				}
			}
		}
	}
	// 3. assume invariants
	for _, inv := range invs {
		c := fr.evalInvariant(inv, b, fr.cur)
		fr.assume(c)
	}
}

// addrRoot follows FieldAddr/IndexAddr chains to the value an address is derived from.
func addrRoot(v ssa.Value) ssa.Value {
	for {
		switch a := v.(type) {
		case *ssa.FieldAddr:
			v = a.X
		case *ssa.IndexAddr:
			v = a.X
		case *ssa.Slice:
			// a sub-slice shares its operand's backing array
			if _, isPtr := a.X.Type().Underlying().(*types.Pointer); isPtr {
				return v
			}
			v = a.X
		default:
			return v
		}
	}
}

// grownByAppendOnly: every value flowing back into the header phi from inside the loop is the phi
// itself or append(<such a value>, ...), possibly merged by other phis.
func grownByAppendOnly(phi *ssa.Phi, h *ssa.BasicBlock, li *loopInfo) bool {
	seen := map[ssa.Value]bool{}
	var ok func(v ssa.Value) bool
	ok = func(v ssa.Value) bool {
		if v == phi || seen[v] {
			return true
		}
		seen[v] = true
		switch x := v.(type) {
		case *ssa.Call:
			if b, isB := x.Call.Value.(*ssa.Builtin); isB && b.Name() == "append" && len(x.Call.Args) > 0 {
				return ok(x.Call.Args[0])
			}
		case *ssa.Phi:
			if !li.body[x.Block()] {
				return false
			}
			for _, e := range x.Edges {
				if !ok(e) {
					return false
				}
			}
			return true
		}
		return false
	}
	for i, p := range h.Preds {
		if li.body[p] && !ok(phi.Edges[i]) {
			return false
		}
	}
	return true
}

// stableCells: if every store to heap n inside loop li goes through an address whose root is
// defined outside the loop, return the root cells (ref terms / backing-array terms).
func (fr *Frame) stableCells(h *ssa.BasicBlock, li *loopInfo, n string) []string {
	roots := fr.x.loopRoots[h][n]
	if len(roots) == 0 {
		return nil
	}
	seen := map[string]bool{}
	out := []string{}
	fr.freshRoots = false
	for _, r := range roots {
		if os.Getenv("GOVC_ROOTS") != "" {
			fmt.Fprintf(os.Stderr, "loop b%d heap %s root %T %v\n", h.Index, n, r, r)
		}
		if r == nil {
			return nil
		}
		var v *SVal
		ok := false
		if in, isIn := r.(ssa.Instruction); isIn {
			if in.Block() == nil {
				return nil
			}
			if li.body[in.Block()] {
				// memory allocated inside the loop body did not exist at the loop head: stores
				// into it leave every cell allocated before the loop alone
				switch ii := in.(type) {
				case *ssa.Alloc, *ssa.MakeSlice, *ssa.MakeMap:
					fr.freshRoots = true
					continue
				case *ssa.Call:
					// (the array an append inside the loop may have allocated)
					if b, isB := ii.Call.Value.(*ssa.Builtin); isB && b.Name() == "append" {
						fr.freshRoots = true
						continue
					}
				}
				// a slice variable of this loop that is only ever replaced by append(itself, ...):
				// its backing array is the one it had at the loop head or one that append allocated
				// inside the loop
				if phi, isPhi := r.(*ssa.Phi); isPhi && phi.Block() == h && grownByAppendOnly(phi, h, li) {
					if pv, have := fr.vals[phi]; have && kindOf(pv.T) == KSlice {
						fr.freshRoots = true
						t := pv.F[0].Term
						if !seen[t] {
							seen[t] = true
							out = append(out, t)
						}
						continue
					}
				}
				// a load inside the loop from a field that the loop does not modify, through a
				// pointer defined outside the loop, yields the same value in every iteration
				v = fr.invariantLoad(h, li, r)
				if v == nil {
					return nil
				}
				ok = true
			}
		}
		if !ok {
			v, ok = fr.vals[r]
		}
		if !ok {
			switch r.(type) {
			case *ssa.Global, *ssa.Const:
				return nil
			}
			return nil
		}
		var t string
		switch kindOf(v.T) {
		case KPtr:
			if v.Loc != nil {
				return nil
			}
			t = v.Term
		case KSlice:
			t = v.F[0].Term
		case KMap:
			t = v.Term
		default:
			return nil
		}
		if !seen[t] {
			seen[t] = true
			out = append(out, t)
		}
	}
	return out
}

func (fr *Frame) backEdge(from, h *ssa.BasicBlock) {
	x := fr.x
	if x.discover {
		return
	}
	li := fr.loops[h]
	invs := fr.invariantsFor(li)
	cond := fr.edge[[2]*ssa.BasicBlock{from, h}]
	// temporarily bind the header's phis to the latch values
	saved := map[*ssa.Phi]*SVal{}
	var idx int
	for i, p := range h.Preds {
		if p == from {
			idx = i
		}
	}
	for _, in := range h.Instrs {
		phi, ok := in.(*ssa.Phi)
		if !ok {
			break
		}
		saved[phi] = fr.vals[phi]
	}
	newv := map[*ssa.Phi]*SVal{}
	for phi := range saved {
		newv[phi] = fr.val(phi.Edges[idx])
	}
	for phi, v := range newv {
		fr.vals[phi] = v
	}
	saveReach := fr.curReach
	fr.curReach = cond
	for i, inv := range invs {
		c := fr.evalInvariant(inv, h, fr.cur)
		fr.oblige("inv-pres", fmt.Sprintf("loop%d:%s", li.ord, inv.label(i)), c, inv.Src)
	}
	fr.curReach = saveReach
	for phi, v := range saved {
		fr.vals[phi] = v
	}
}

func (fr *Frame) invariantsFor(li *loopInfo) []*Clause {
	if fr.contract == nil {
		return nil
	}
	return fr.contract.LoopInv[li.ord]
}

// ---------------------------------------------------------------------------
// instructions

// noteEscapes marks local allocations whose address is handed to something that may keep or
// use it behind our back (a call that is not known to modify nothing, a closure, an interface,
// a store into memory, a slice, a return). Until then a local cell is out of reach of callees.
func (fr *Frame) noteEscapes(in ssa.Instruction) {
	mark := func(v ssa.Value) {
		if a, ok := addrRoot(v).(*ssa.Alloc); ok {
			if fr.escaped == nil {
				fr.escaped = map[*ssa.Alloc]bool{}
			}
			fr.escaped[a] = true
		}
	}
	switch i := in.(type) {
	case *ssa.UnOp, *ssa.FieldAddr, *ssa.IndexAddr, *ssa.DebugRef, *ssa.Alloc:
		return
	case *ssa.Store:
		mark(i.Val)
		return
	case *ssa.Call:
		cc := i.Common()
		if f := cc.StaticCallee(); f != nil && !cc.IsInvoke() {
			if c := fr.x.w.contracts[funcKey(f)]; c != nil && !c.Inline && c.HasModifies && !c.ModifiesAll && len(c.Modifies) == 0 {
				return // promises to modify nothing: it cannot retain the pointer either
			}
		}
		for _, a := range cc.Args {
			mark(a)
		}
		if !cc.IsInvoke() {
			mark(cc.Value)
		}
		return
	}
	for _, op := range in.Operands(nil) {
		if *op != nil {
			mark(*op)
		}
	}
}

func (fr *Frame) instr(in ssa.Instruction) {
	x := fr.x
	fr.noteEscapes(in)
	if p := in.Pos(); p.IsValid() {
		pos := fr.fn.Prog.Fset.Position(p)
		fr.curPos = fmt.Sprintf("%s:%d", strings.TrimPrefix(pos.Filename, x.w.root+"/"), pos.Line)
	}
	switch i := in.(type) {
	case *ssa.DebugRef:
		return
	case *ssa.Alloc:
		el := i.Type().(*types.Pointer).Elem()
		ref := fr.freshRef(i.Comment)
		// (the zero-initialisation below writes through the allocation itself)
		fr.storeRoot = i
		defer func() { fr.storeRoot = nil }()
		if a, ok := el.Underlying().(*types.Array); ok && !isLeaf(a.Elem()) {
			// array of structs: a backing array in the HA family, zero-initialised per leaf
			for _, eh := range elemHeaps(a.Elem()) {
				z := "((as const (Array Int " + eh.lf.Sort + ")) " + zeroTerm(eh.lf.T) + ")"
				if eh.lf.Sort == "Str" {
					x.declStrEmpty()
				}
				fr.heapSet(eh.name, eh.sort, sStore(x.heapGet(fr.cur, eh.name, eh.sort), ref, z))
			}
			fr.vals[i] = &SVal{T: i.Type(), Term: ref}
			return
		}
		loc := &Loc{Kind: LRef, Base: ref, Root: el, T: el}
		fr.writeLoc(loc, zeroVal(el))
		fr.vals[i] = &SVal{T: i.Type(), Term: ref}
		fr.locals = append(fr.locals, localAlloc{ref, el, i})
	case *ssa.BinOp:
		fr.vals[i] = fr.binop(i.Op, fr.val(i.X), fr.val(i.Y), i.Type(), i)
	case *ssa.UnOp:
		fr.unop(i)
	case *ssa.Phi:
		panic("phi handled elsewhere")
	case *ssa.Convert:
		fr.vals[i] = fr.convert(fr.val(i.X), i.Type())
	case *ssa.ChangeType:
		v := fr.val(i.X)
		n := *v
		n.T = i.Type()
		fr.vals[i] = &n
	case *ssa.ChangeInterface:
		v := fr.val(i.X)
		fr.vals[i] = leaf(i.Type(), v.Term)
	case *ssa.MakeInterface:
		fr.vals[i] = fr.makeInterface(fr.val(i.X), i.Type())
	case *ssa.TypeAssert:
		fr.typeAssert(i)
	case *ssa.Extract:
		t := fr.val(i.Tuple)
		fr.vals[i] = t.F[i.Index]
	case *ssa.Field:
		v := fr.val(i.X)
		fr.vals[i] = v.F[i.Field]
	case *ssa.FieldAddr:
		p := fr.val(i.X)
		loc := fr.ptrLoc(p, true)
		st := loc.T.Underlying().(*types.Struct)
		f := st.Field(i.Field)
		fr.vals[i] = &SVal{T: i.Type(), Loc: loc.extend(PStep{Field: f.Name()}, f.Type())}
	case *ssa.Index:
		v := fr.val(i.X)
		idx := fr.val(i.Index)
		switch kindOf(v.T) {
		case KArray:
			a := v.T.Underlying().(*types.Array)
			fr.oblige("safe:index", "", sAnd(sLe("0", idx.Term), sLt(idx.Term, sInt(a.Len()))), "")
			r := leaf(i.Type(), sSelect(v.Term, idx.Term))
			fr.vals[i] = r
			x.assumeRange(r.Term, r.T)
		case KStr:
			x.declStrEmpty()
			fr.oblige("safe:index", "", sAnd(sLe("0", idx.Term), sLt(idx.Term, "(strlen "+v.Term+")")), "")
			f := x.em.Func("strat", []string{"Str", "Int"}, "Int")
			r := leaf(i.Type(), sApp(f, v.Term, idx.Term))
			x.assumeRange(r.Term, r.T)
			fr.vals[i] = r
		default:
			panic(unsupported("Index on %s", v.T))
		}
	case *ssa.IndexAddr:
		fr.indexAddr(i)
	case *ssa.Slice:
		fr.slice(i)
	case *ssa.Store:
		p := fr.val(i.Addr)
		loc := fr.ptrLoc(p, true)
		fr.storeRoot = addrRoot(i.Addr)
		fr.writeLoc(loc, fr.val(i.Val))
		fr.storeRoot = nil
	case *ssa.MakeSlice:
		fr.storeRoot = i
		fr.makeSlice(i)
		fr.storeRoot = nil
	case *ssa.MakeMap:
		fr.storeRoot = i
		fr.makeMap(i)
		fr.storeRoot = nil
	case *ssa.MapUpdate:
		// map stores can be guarded like calls: guard[mapupdate:label] with callee_map, callee_key
		// and callee_value; the map is still in its state before the store
		if !fr.inlined && fr.contract != nil {
			for _, g := range fr.contract.Guards {
				if g.Name != "mapupdate" {
					continue
				}
				// the label names the map variable the guard is about
				if mv := fr.lookupDebug(g.Label, fr.curBlock, true); mv == nil || mv.Term == "" || mv.Term != fr.val(i.Map).Term {
					continue
				}
				env := fr.newEnv()
				env.contract = fr.contract
				env.at = fr.curBlock
				env.vars["callee_map"] = fr.val(i.Map)
				env.vars["callee_key"] = fr.val(i.Key)
				env.vars["callee_value"] = fr.val(i.Value)
				x.guardsSeen[g.Name] = true
				x.onlyProps = g.Only
				fr.oblige("guard", "mapupdate:"+g.Label, fr.evalGuard(g, env), g.Src)
				x.onlyProps = nil
			}
		}
		fr.storeRoot = i.Map
		fr.mapUpdate(fr.val(i.Map), fr.val(i.Key), fr.val(i.Value))
		fr.storeRoot = nil
	case *ssa.Lookup:
		fr.lookup(i)
	case *ssa.Range:
		fr.rangeInit(i)
	case *ssa.Next:
		fr.next(i)
	case *ssa.MakeClosure:
		fn := i.Fn.(*ssa.Function)
		var bind []*SVal
		for _, b := range i.Bindings {
			bind = append(bind, fr.val(b))
		}
		fr.vals[i] = &SVal{T: i.Type(), Term: x.em.Fresh("closure", "Int"), Fn: fn, Bind: bind}
		// The preconditions of a closure under contract are established where the closure is
		// created: its free variables are the creator's variables of the same names, and the
		// creator's parameters are visible to the closure's contract as rigid values.
		if cc := x.w.contracts[funcKey(fn)]; cc != nil && !fr.inlined && fr.contract != nil && len(cc.Captures) > 0 {
			x.closuresSeen[funcKey(fn)] = true
			for k, cl := range cc.Captures {
				env := fr.newEnv()
				env.contract = cc
				env.at = fr.curBlock
				x.onlyProps = cc.Props
				fr.oblige("closure-pre", fn.Name()+":"+cl.label(k), fr.evalGuard(cl, env), cl.Src)
				x.onlyProps = nil
			}
		}
	case *ssa.Call:
		fr.call(i, i.Common(), i)
	case *ssa.Defer:
		fr.defers = append(fr.defers, i)
	case *ssa.RunDefers:
		for k := len(fr.defers) - 1; k >= 0; k-- {
			d := fr.defers[k]
			fr.call(d, d.Common(), nil)
		}
	case *ssa.Go, *ssa.Select, *ssa.Send, *ssa.MakeChan:
		// Concurrency primitives are only tolerated in functions whose contract consists of
		// call-site guards (lenient): they are treated as arbitrary sequential effects
		// (everything reachable may change, results are arbitrary). No interleaving is modelled.
		if fr.contract == nil || !fr.contract.Lenient || fr.inlined {
			panic(unsupported("%T (goroutines/channels are outside the Go subset)", in))
		}
		x.trust("A-SEQ-LENIENT: " + fmt.Sprintf("%T", in) + " treated as an arbitrary sequential effect in " + x.fnKey)
		fr.havocAll("concurrency primitive")
		if v, ok := in.(ssa.Value); ok {
			fr.vals[v] = fr.freshVal("conc", v.Type())
		}
	case *ssa.If:
		c := fr.val(i.Cond).Term
		b := fr.curBlock
		c = x.em.Def("cond."+fr.id+"."+fmt.Sprint(b.Index), "Bool", c)
		if b.Succs[0] == b.Succs[1] {
			fr.edge[[2]*ssa.BasicBlock{b, b.Succs[0]}] = fr.curReach
		} else {
			fr.edge[[2]*ssa.BasicBlock{b, b.Succs[0]}] = sAnd(fr.curReach, c)
			fr.edge[[2]*ssa.BasicBlock{b, b.Succs[1]}] = sAnd(fr.curReach, sNot(c))
		}
	case *ssa.Jump:
		b := fr.curBlock
		fr.edge[[2]*ssa.BasicBlock{b, b.Succs[0]}] = fr.curReach
	case *ssa.Return:
		var vs []*SVal
		for _, r := range i.Results {
			vs = append(vs, fr.val(r))
		}
		fr.rets = append(fr.rets, &retInfo{reach: fr.curReach, vals: vs, heap: fr.cur})
		if !fr.inlined {
			fr.checkPost(vs)
		}
	case *ssa.Panic:
		if fr.contract != nil && fr.contract.NoPanic || fr.inlined && x.topNoPanic() {
			fr.oblige("nopanic", "", "false", "")
		}
	case *ssa.SliceToArrayPointer:
		panic(unsupported("slice to array pointer"))
	default:
		panic(unsupported("instruction %T", in))
	}
}

func (x *Exec) topNoPanic() bool {
	c := x.w.contracts[x.fnKey]
	return c != nil && c.NoPanic
}

func (fr *Frame) unop(i *ssa.UnOp) {
	x := fr.x
	v := fr.val(i.X)
	switch i.Op {
	case token.MUL: // load
		if g, ok := i.X.(*ssa.Global); ok {
			if sv := fr.loadGlobal(g); sv != nil {
				fr.vals[i] = sv
				return
			}
		}
		loc := fr.ptrLoc(v, true)
		fr.vals[i] = fr.readLoc(loc)
		fr.vals[i].T = i.Type()
		if g, isG := i.X.(*ssa.Global); isG && g.Pkg != nil {
			// facts established by the package's initialisers ("//@ initfact", assumed: A-INIT)
			for _, f := range x.w.cs.pkgFacts[shortPkg(g.Pkg.Pkg.Path())] {
				if !strings.Contains(f.Src, g.Name()) {
					continue
				}
				env := fr.newEnv()
				env.pkg = g.Pkg
				env.specPkg = shortPkg(g.Pkg.Pkg.Path())
				if t := fr.evalGuard(f, env); t != "false" {
					x.em.Assert(t)
					x.trust("A-INIT: package initialisation fact of " + g.Pkg.Pkg.Path() + ": " + f.Src)
				}
			}
		}
		if g, isG := i.X.(*ssa.Global); isG && kindOf(i.Type()) == KPtr {
			// exported pointer variables of library packages (base64.StdEncoding, ...) are
			// initialised at package init and never nil (A-STDLIB-GLOBALS)
			if g.Pkg != nil && !strings.HasPrefix(g.Pkg.Pkg.Path(), repoMod) {
				x.em.Assert(sLt("0", fr.vals[i].Term))
				x.trust("A-STDLIB-GLOBALS: library package variable " + g.Pkg.Pkg.Path() + "." + g.Name() + " is non-nil")
			}
			// package-level loggers are initialised at package init and never nil (A-LOG)
			if pt, ok := i.Type().Underlying().(*types.Pointer); ok {
				if n, ok := pt.Elem().(*types.Named); ok && n.Obj().Pkg() != nil && strings.HasSuffix(n.Obj().Pkg().Path(), "/util/logging") {
					x.em.Assert(sLt("0", fr.vals[i].Term))
				}
			}
		}
	case token.NOT:
		fr.vals[i] = leaf(i.Type(), sNot(v.Term))
	case token.SUB:
		if kindOf(v.T) == KFloat {
			fr.vals[i] = leaf(i.Type(), "(- "+v.Term+")")
			return
		}
		raw := "(- " + v.Term + ")"
		if fr.contract != nil && fr.contract.NoOverflow && !fr.inlined {
			fr.oblige("nooverflow", "neg", inRange(i.Type(), raw), "")
		}
		fr.vals[i] = leaf(i.Type(), wrapInt(i.Type(), raw))
	case token.XOR:
		w, signed := intInfo(i.Type())
		if signed {
			fr.vals[i] = leaf(i.Type(), "(- (- "+v.Term+") 1)")
		} else {
			m := pow2(w)
			fr.vals[i] = leaf(i.Type(), "(- "+m.String()+" 1 "+v.Term+")")
		}
	case token.ARROW:
		if fr.contract == nil || !fr.contract.Lenient || fr.inlined {
			panic(unsupported("channel receive"))
		}
		x.trust("A-SEQ-LENIENT: channel receive yields an arbitrary value in " + x.fnKey)
		fr.havocAll("channel receive")
		fr.vals[i] = fr.freshVal("recv", i.Type())
	default:
		panic(unsupported("unop %s", i.Op))
	}
	_ = x
}

// loadGlobal handles sentinel errors and constants-like globals.
func (fr *Frame) loadGlobal(g *ssa.Global) *SVal {
	x := fr.x
	t := g.Type().(*types.Pointer).Elem()
	if kindOf(t) == KIface && x.w.isSentinel(g) {
		name := "err:" + shortPkg(g.Pkg.Pkg.Path()) + "." + g.Name()
		first := x.em.declared[sym(name)] == ""
		c := x.em.Const(name, "Int")
		if first {
			x.em.Assert(sLt("0", c))
			for _, o := range x.sentinel {
				x.em.Assert("(distinct " + c + " " + o + ")")
			}
			for _, o := range x.freshErr {
				x.em.Assert("(distinct " + c + " " + o + ")")
			}
			x.sentinel = append(x.sentinel, c)
			x.em.Assert(sEq("(typetag "+c+")", x.typeTagNamed("*errors.errorString")))
		}
		return leaf(t, c)
	}
	return nil
}

func (x *Exec) typeTagNamed(k string) string {
	if n, ok := x.typeTags[k]; ok {
		return sInt(int64(n))
	}
	n := len(x.typeTags) + 1
	x.typeTags[k] = n
	return sInt(int64(n))
}

func (fr *Frame) newFreshError(what string) *SVal {
	x := fr.x
	c := x.em.Fresh("newerr."+what, "Int")
	x.em.Assert(sLt("0", c))
	for _, o := range x.sentinel {
		x.em.Assert("(distinct " + c + " " + o + ")")
	}
	x.freshErr = append(x.freshErr, c)
	return leaf(types.Universe.Lookup("error").Type(), c)
}

func (fr *Frame) indexAddr(i *ssa.IndexAddr) {
	v := fr.val(i.X)
	idx := fr.val(i.Index).Term
	switch kindOf(v.T) {
	case KSlice:
		ln := v.F[2].Term
		fr.oblige("safe:index", "", sAnd(sLe("0", idx), sLt(idx, ln)), "")
		et := elemType(v.T)
		fr.vals[i] = &SVal{T: i.Type(), Loc: &Loc{Kind: LElem, Base: v.F[0].Term, Idx: sAdd(v.F[1].Term, idx), Root: et, T: et}}
	case KPtr:
		loc := fr.ptrLoc(v, true)
		a, ok := loc.T.Underlying().(*types.Array)
		if !ok {
			panic(unsupported("IndexAddr on %s", v.T))
		}
		fr.oblige("safe:index", "", sAnd(sLe("0", idx), sLt(idx, sInt(a.Len()))), "")
		if loc.Kind == LRef && len(loc.Path) == 0 {
			// pointer to a whole array: the ref names a backing array, as for slices
			fr.vals[i] = &SVal{T: i.Type(), Loc: &Loc{Kind: LElem, Base: loc.Base, Idx: idx, Root: a.Elem(), T: a.Elem()}}
			return
		}
		fr.vals[i] = &SVal{T: i.Type(), Loc: loc.extend(PStep{Idx: idx}, a.Elem())}
	default:
		panic(unsupported("IndexAddr on %s", v.T))
	}
}

func (fr *Frame) slice(i *ssa.Slice) {
	x := fr.x
	v := fr.val(i.X)
	opt := func(e ssa.Value, def string) string {
		if e == nil {
			return def
		}
		return fr.val(e).Term
	}
	switch kindOf(v.T) {
	case KSlice:
		arr, off, ln, cp := v.F[0].Term, v.F[1].Term, v.F[2].Term, v.F[3].Term
		lo := opt(i.Low, "0")
		hi := opt(i.High, ln)
		mx := opt(i.Max, cp)
		fr.oblige("safe:slice", "", sAnd(sLe("0", lo), sLe(lo, hi), sLe(hi, mx), sLe(mx, cp)), "")
		fr.vals[i] = &SVal{T: i.Type(), F: []*SVal{leaf(intType, arr), leaf(intType, x.em.Def("off", "Int", sAdd(off, lo))),
			leaf(intType, x.em.Def("len", "Int", sSub(hi, lo))), leaf(intType, x.em.Def("cap", "Int", sSub(mx, lo)))}}
	case KStr:
		x.declStrEmpty()
		ln := "(strlen " + v.Term + ")"
		lo := opt(i.Low, "0")
		hi := opt(i.High, ln)
		fr.oblige("safe:slice", "", sAnd(sLe("0", lo), sLe(lo, hi), sLe(hi, ln)), "")
		f := x.em.Func("substr", []string{"Str", "Int", "Int"}, "Str")
		r := sApp(f, v.Term, lo, hi)
		x.em.Assert(sEq("(strlen "+r+")", sSub(hi, lo)))
		x.em.Assert(sImp(sAnd(sEq(lo, "0"), sEq(hi, ln)), sEq(r, v.Term)))
		fr.vals[i] = leaf(i.Type(), r)
	case KPtr:
		loc := fr.ptrLoc(v, true)
		a, ok := loc.T.Underlying().(*types.Array)
		if !ok {
			panic(unsupported("Slice on %s", v.T))
		}
		n := sInt(a.Len())
		lo := opt(i.Low, "0")
		hi := opt(i.High, n)
		mx := opt(i.Max, n)
		fr.oblige("safe:slice", "", sAnd(sLe("0", lo), sLe(lo, hi), sLe(hi, mx), sLe(mx, n)), "")
		var arr string
		if loc.Kind == LRef && len(loc.Path) == 0 {
			arr = loc.Base
		} else {
			// array embedded in a struct or element: snapshot copy into a fresh backing array
			arr = fr.freshRef("arrsnap")
			cur := fr.readLoc(loc)
			name := "HA:" + typeKey(a.Elem())
			hs := heapSort(LElem, sortOf(a.Elem()))
			fr.heapSet(name, hs, sStore(x.heapGet(fr.cur, name, hs), arr, cur.Term))
			if x.snap == nil {
				x.snap = map[string]*Loc{}
			}
			x.snap[arr] = loc
			x.trust("slice of an embedded array modelled as a snapshot (copy() into it is written back; other aliasing is not): " + typeKey(loc.Root))
		}
		fr.vals[i] = &SVal{T: i.Type(), F: []*SVal{leaf(intType, arr), leaf(intType, lo),
			leaf(intType, x.em.Def("len", "Int", sSub(hi, lo))), leaf(intType, x.em.Def("cap", "Int", sSub(mx, lo)))}}
	default:
		panic(unsupported("Slice on %s", v.T))
	}
}

func (fr *Frame) makeSlice(i *ssa.MakeSlice) {
	x := fr.x
	ln := fr.val(i.Len).Term
	cp := fr.val(i.Cap).Term
	fr.oblige("safe:makelen", "", sAnd(sLe("0", ln), sLe(ln, cp)), "")
	// a successful allocation is within the physical bound (T4/T5: memory exhaustion is not modelled)
	fr.assume(sLe(cp, maxSliceLen))
	ref := fr.freshRef("make")
	et := elemType(i.Type())
	for _, lf := range leavesOf(et) {
		name := "HA:" + typeKey(et)
		if len(lf.Path) > 0 {
			name += ":" + strings.Join(lf.Path, ".")
		}
		hs := heapSort(LElem, lf.Sort)
		z := "((as const (Array Int " + lf.Sort + ")) " + zeroTerm(lf.T) + ")"
		if lf.Sort == "Str" {
			x.declStrEmpty()
		}
		fr.heapSet(name, hs, sStore(x.heapGet(fr.cur, name, hs), ref, z))
	}
	fr.vals[i] = &SVal{T: i.Type(), F: []*SVal{leaf(intType, ref), leaf(intType, "0"), leaf(intType, ln), leaf(intType, cp)}}
}

// ---------------------------------------------------------------------------
// interfaces

func (fr *Frame) makeInterface(v *SVal, it types.Type) *SVal {
	x := fr.x
	if kindOf(v.T) == KIface {
		return leaf(it, v.Term)
	}
	tk := typeKey(v.T)
	fl := v.flat()
	var sorts, args []string
	for _, l := range fl {
		t := l.Term
		if l.Loc != nil {
			if l.Loc.Kind == LRef && len(l.Loc.Path) == 0 {
				t = l.Loc.Base
			} else {
				// interior pointer: an opaque token; the static location travels with the value
				// so that contracts can say `modifies pointee(x)`
				t = x.em.Fresh("interior", "Int")
				x.em.Assert(sLt("0", t))
			}
		}
		sorts = append(sorts, sortOf(l.T))
		args = append(args, t)
	}
	var keepLoc *Loc
	if kindOf(v.T) == KPtr && v.F == nil {
		if v.Loc != nil {
			keepLoc = v.Loc
		} else if pt, ok := v.T.Underlying().(*types.Pointer); ok {
			keepLoc = &Loc{Kind: LRef, Base: v.Term, Root: pt.Elem(), T: pt.Elem()}
		}
	}
	defer func() {
		// (set after the value is built below)
	}()
	_ = keepLoc
	f := x.em.Func("mkiface:"+tk, sorts, "Int")
	r := x.em.Def("iface", "Int", sApp(f, args...))
	x.em.Assert(sAnd(sLt("0", r), sEq("(typetag "+r+")", x.typeTag(v.T))))
	for k, l := range fl {
		u := x.em.Func(fmt.Sprintf("unmk:%s:%d", tk, k), []string{"Int"}, sortOf(l.T))
		x.em.Assert(sEq(sApp(u, r), args[k]))
	}
	res := leaf(it, r)
	res.Pointee = keepLoc
	return res
}

func (fr *Frame) unmakeInterface(term string, t types.Type) *SVal {
	x := fr.x
	tk := typeKey(t)
	k := 0
	v := buildVal(t, func(l Leaf) string {
		u := x.em.Func(fmt.Sprintf("unmk:%s:%d", tk, k), []string{"Int"}, l.Sort)
		k++
		return sApp(u, term)
	})
	return v
}

func (fr *Frame) typeAssert(i *ssa.TypeAssert) {
	x := fr.x
	v := fr.val(i.X)
	at := i.AssertedType
	var ok string
	var res *SVal
	if kindOf(at) == KIface {
		// interface-to-interface: succeeds for non-nil values whose dynamic type implements it;
		// over-approximated by an uninterpreted predicate of the type tag.
		p := x.em.Func("implements:"+typeKey(at), []string{"Int"}, "Bool")
		ok = sAnd(sNot(sEq(v.Term, "0")), sApp(p, "(typetag "+v.Term+")"))
		res = leaf(at, v.Term)
	} else {
		ok = sAnd(sNot(sEq(v.Term, "0")), sEq("(typetag "+v.Term+")", x.typeTag(at)))
		res = fr.unmakeInterface(v.Term, at)
		fr.assumeRanges(res)
	}
	if i.CommaOk {
		okc := x.em.Def("taok", "Bool", ok)
		// on failure the value is the zero value
		z := zeroVal(at)
		fr.vals[i] = &SVal{T: i.Type(), F: []*SVal{fr.iteVal(okc, res, z), leaf(types.Typ[types.Bool], okc)}}
		return
	}
	fr.oblige("safe:typeassert", "", ok, "")
	fr.vals[i] = res
}

// ---------------------------------------------------------------------------
// maps

type mapHeaps struct {
	dom, ln     string
	domS        string
	kSort       string
	vt          types.Type
	key         string
	valLeaves   []Leaf
	valHeapName func(l Leaf) string
}

func (fr *Frame) mapInfo(t types.Type) *mapHeaps {
	m := t.Underlying().(*types.Map)
	ks := fr.x.keySort(m.Key())
	key := "HM:" + typeKey(m.Key()) + ":" + typeKey(m.Elem())
	mh := &mapHeaps{dom: key + ":dom", ln: key + ":len", domS: "(Array Int (Array " + ks + " Bool))", kSort: ks, vt: m.Elem(), key: key}
	mh.valLeaves = leavesOf(m.Elem())
	mh.valHeapName = func(l Leaf) string {
		n := key + ":val"
		if len(l.Path) > 0 {
			n += ":" + strings.Join(l.Path, ".")
		}
		return n
	}
	return mh
}

// keySort is the SMT sort of map keys of type t: the leaf sort, or for a struct key an
// algebraic datatype with one field per leaf (so key equality is field-wise equality).
func (x *Exec) keySort(t types.Type) string {
	if isLeaf(t) {
		return sortOf(t)
	}
	if kindOf(t) != KStruct {
		panic(unsupported("map with composite key %s", t))
	}
	name := sym("K:" + typeKey(t))
	if !x.em.funcs[name] {
		x.em.funcs[name] = true
		var fs []string
		for i, l := range leavesOf(t) {
			fs = append(fs, fmt.Sprintf("(%s %s)", sym(fmt.Sprintf("K:%s:f%d", typeKey(t), i)), l.Sort))
		}
		x.em.Raw("(declare-datatypes ((" + name + " 0)) (((" + sym("mk:K:"+typeKey(t)) + " " + strings.Join(fs, " ") + "))))")
	}
	return name
}

// keyTerm is the SMT term of a map key value.
func (fr *Frame) keyTerm(k *SVal) string {
	if k.Term != "" || isLeaf(k.T) {
		return k.Term
	}
	fr.x.keySort(k.T)
	var ts []string
	for _, l := range k.flat() {
		ts = append(ts, l.Term)
	}
	return "(" + sym("mk:K:"+typeKey(k.T)) + " " + strings.Join(ts, " ") + ")"
}

// keyVal rebuilds a key value of type t from a term of its key sort.
func (fr *Frame) keyVal(t types.Type, term string) *SVal {
	if isLeaf(t) {
		return leaf(t, term)
	}
	fr.x.keySort(t)
	i := 0
	return buildVal(t, func(l Leaf) string {
		r := "(" + sym(fmt.Sprintf("K:%s:f%d", typeKey(t), i)) + " " + term + ")"
		i++
		return r
	})
}

func (mh *mapHeaps) valSort(l Leaf) string { return "(Array Int (Array " + mh.kSort + " " + l.Sort + "))" }

func (fr *Frame) mapLookupIn(h *HeapState, m *SVal, k string) (val *SVal, in string) {
	x := fr.x
	mh := fr.mapInfo(m.T)
	in = sSelect(sSelect(x.heapGet(h, mh.dom, mh.domS), m.Term), k)
	val = buildVal(mh.vt, func(l Leaf) string {
		return sSelect(sSelect(x.heapGet(h, mh.valHeapName(l), mh.valSort(l)), m.Term), k)
	})
	return
}

func (fr *Frame) mapLen(h *HeapState, m *SVal) string {
	mh := fr.mapInfo(m.T)
	return sSelect(fr.x.heapGet(h, mh.ln, "(Array Int Int)"), m.Term)
}

func (fr *Frame) makeMap(i *ssa.MakeMap) {
	x := fr.x
	ref := fr.freshRef("map")
	mh := fr.mapInfo(i.Type())
	fr.heapSet(mh.dom, mh.domS, sStore(x.heapGet(fr.cur, mh.dom, mh.domS), ref, "((as const (Array "+mh.kSort+" Bool)) false)"))
	fr.heapSet(mh.ln, "(Array Int Int)", sStore(x.heapGet(fr.cur, mh.ln, "(Array Int Int)"), ref, "0"))
	fr.vals[i] = leaf(i.Type(), ref)
}

func (fr *Frame) mapUpdate(m, k, v *SVal) {
	x := fr.x
	mh := fr.mapInfo(m.T)
	fr.oblige("safe:mapnil", "", sNot(sEq(m.Term, "0")), "")
	dom := x.heapGet(fr.cur, mh.dom, mh.domS)
	ln := x.heapGet(fr.cur, mh.ln, "(Array Int Int)")
	kt := fr.keyTerm(k)
	was := sSelect(sSelect(dom, m.Term), kt)
	fr.heapSet(mh.ln, "(Array Int Int)", sStore(ln, m.Term, sAdd(sSelect(ln, m.Term), sIte(was, "0", "1"))))
	fr.heapSet(mh.dom, mh.domS, sStore(dom, m.Term, sStore(sSelect(dom, m.Term), kt, "true")))
	fl := v.flat()
	for j, l := range mh.valLeaves {
		n := mh.valHeapName(l)
		hv := x.heapGet(fr.cur, n, mh.valSort(l))
		t := fl[j].Term
		if fl[j].Loc != nil && fl[j].Loc.Kind == LRef && len(fl[j].Loc.Path) == 0 {
			t = fl[j].Loc.Base
		}
		fr.heapSet(n, mh.valSort(l), sStore(hv, m.Term, sStore(sSelect(hv, m.Term), kt, t)))
	}
}

func (fr *Frame) mapDelete(m, k *SVal) {
	x := fr.x
	mh := fr.mapInfo(m.T)
	dom := x.heapGet(fr.cur, mh.dom, mh.domS)
	ln := x.heapGet(fr.cur, mh.ln, "(Array Int Int)")
	kt := fr.keyTerm(k)
	was := sSelect(sSelect(dom, m.Term), kt)
	// delete on a nil map is a no-op
	fr.heapSet(mh.ln, "(Array Int Int)", sStore(ln, m.Term, sSub(sSelect(ln, m.Term), sIte(sAnd(was, sNot(sEq(m.Term, "0"))), "1", "0"))))
	fr.heapSet(mh.dom, mh.domS, sStore(dom, m.Term, sStore(sSelect(dom, m.Term), kt, "false")))
}

func (fr *Frame) lookup(i *ssa.Lookup) {
	x := fr.x
	m := fr.val(i.X)
	k := fr.val(i.Index)
	if kindOf(m.T) == KStr {
		x.declStrEmpty()
		fr.oblige("safe:index", "", sAnd(sLe("0", k.Term), sLt(k.Term, "(strlen "+m.Term+")")), "")
		f := x.em.Func("strat", []string{"Str", "Int"}, "Int")
		r := leaf(i.Type(), sApp(f, m.Term, k.Term))
		x.assumeRange(r.Term, r.T)
		fr.vals[i] = r
		return
	}
	val, in := fr.mapLookupIn(fr.cur, m, fr.keyTerm(k))
	in = sAnd(sNot(sEq(m.Term, "0")), in)
	inc := x.em.Def("inmap", "Bool", in)
	mh := fr.mapInfo(m.T)
	res := fr.iteVal(inc, val, zeroVal(mh.vt))
	fr.assumeRanges(res)
	fr.mapValuesAllocated(fr.cur, m)
	if i.CommaOk {
		fr.vals[i] = &SVal{T: i.Type(), F: []*SVal{res, leaf(types.Typ[types.Bool], inc)}}
	} else {
		fr.vals[i] = res
	}
}

type rangeState struct {
	m     *SVal
	isStr bool
}

func (fr *Frame) rangeInit(i *ssa.Range) {
	v := fr.val(i.X)
	fr.vals[i] = &SVal{T: i.Type(), Term: "0", F: nil, Bind: []*SVal{v}}
}

func (fr *Frame) next(i *ssa.Next) {
	x := fr.x
	it := fr.val(i.Iter)
	src := it.Bind[0]
	tup := i.Type().(*types.Tuple)
	ok := x.em.Fresh("next.ok", "Bool")
	if i.IsString {
		k := fr.freshVal("next.k", tup.At(1).Type())
		v := fr.freshVal("next.v", tup.At(2).Type())
		x.declStrEmpty()
		fr.assume(sImp(ok, sAnd(sLe("0", k.Term), sLt(k.Term, "(strlen "+src.Term+")"))))
		fr.vals[i] = &SVal{T: i.Type(), F: []*SVal{leaf(types.Typ[types.Bool], ok), k, v}}
		return
	}
	mh := fr.mapInfo(src.T)
	kt := tup.At(1).Type()
	if kindOf(kt) == KOther || types.Identical(kt, types.Typ[types.Invalid]) {
		kt = src.T.Underlying().(*types.Map).Key()
	}
	keyT := src.T.Underlying().(*types.Map).Key()
	var k *SVal
	if isLeaf(keyT) {
		k = fr.freshVal("next.k", keyT)
	} else {
		k = fr.keyVal(keyT, x.em.Fresh("next.k", mh.kSort))
		fr.assumeRanges(k)
	}
	val, in := fr.mapLookupIn(fr.cur, src, fr.keyTerm(k))
	fr.assume(sImp(ok, sAnd(in, sNot(sEq(src.Term, "0")))))
	fr.assumeRanges(val)
	fr.mapValuesAllocated(fr.cur, src)
	_ = mh
	fr.vals[i] = &SVal{T: i.Type(), F: []*SVal{leaf(types.Typ[types.Bool], ok), k, val}}
}

// invariantLoad: r is a load inside loop li through a chain of field addresses rooted at a
// value defined outside the loop; if the loop modifies none of the heaps read, the loaded
// value is the one read at loop entry.
func (fr *Frame) invariantLoad(h *ssa.BasicBlock, li *loopInfo, r ssa.Value) (res *SVal) {
	u, ok := r.(*ssa.UnOp)
	if !ok || u.Op != token.MUL {
		return nil
	}
	var fields []*ssa.FieldAddr
	a := u.X
	for {
		fa, ok := a.(*ssa.FieldAddr)
		if !ok {
			break
		}
		fields = append([]*ssa.FieldAddr{fa}, fields...)
		a = fa.X
	}
	if len(fields) == 0 {
		return nil
	}
	if in, ok := a.(ssa.Instruction); ok && (in.Block() == nil || li.body[in.Block()]) {
		return nil
	}
	base, ok := fr.vals[a]
	if !ok {
		return nil
	}
	defer func() {
		if recover() != nil {
			res = nil
		}
	}()
	loc := fr.ptrLoc(base, false)
	for _, fa := range fields {
		st, ok := loc.T.Underlying().(*types.Struct)
		if !ok {
			return nil
		}
		f := st.Field(fa.Field)
		loc = loc.extend(PStep{Field: f.Name()}, f.Type())
	}
	for _, lf := range leavesOf(loc.T) {
		name, _ := loc.heapFor(lf.Path)
		if fr.x.loopMods[h][name] {
			return nil
		}
	}
	return fr.readLocIn(fr.cur, loc)
}
