package main

import (
	"fmt"
	"go/types"
	"sort"
	"strings"

	"golang.org/x/tools/go/ssa"
)

// verifyLemma proves a lemma stated over contracts and spec functions alone:
//   //@ lemma name
//   //@ property Cxx
//   //@ var x:uint64 n:int
//   //@ uses r = pkg.Func(a, b)      (instantiates Func's contract: its requires become
//   //@                                obligations, its ensures assumptions about fresh results)
//   //@ assumes <expr>
//   //@ shows[name] <expr>
func (w *World) verifyLemma(l *Lemma) (res *FnResult) {
	key := l.Pkg + ".lemma:" + l.Name
	res = &FnResult{Key: key}
	defer func() {
		if r := recover(); r != nil {
			switch e := r.(type) {
			case Unsupported:
				res.Err = fmt.Errorf("unsupported in %s: %s", key, e.Msg)
			case specFail:
				res.Err = fmt.Errorf("contract-binding in %s: %s", key, e.msg)
			default:
				panic(r)
			}
		}
	}()
	x := newExec(w, nil, key, l.Props, false)
	fr := &Frame{x: x, id: "lemma", vals: map[ssa.Value]*SVal{}, params: map[string]*SVal{}, dedupe: map[string]bool{}, curReach: "true"}
	fr.entry = x.newHeap()
	fr.cur = fr.entry
	var pkg *ssa.Package
	for _, p := range w.prog.AllPackages() {
		if shortPkg(p.Pkg.Path()) == l.Pkg {
			pkg = p
		}
	}
	env := &SpecEnv{fr: fr, vars: map[string]*SVal{}, heap: fr.cur, old: fr.entry, pkg: pkg, lemma: l}
	for _, v := range l.Vars {
		parts := strings.SplitN(v, ":", 2)
		if len(parts) != 2 {
			sfail("lemma var %q must be name:type", v)
		}
		var t types.Type
		switch parts[1] {
		case "int":
			t = specIntType
		case "bytes":
			t = types.NewSlice(types.Typ[types.Uint8])
		case "string":
			t = types.Typ[types.String]
		default:
			n, err := parseSpec(parts[1])
			if err != nil {
				sfail("bad type in lemma var %q", v)
			}
			t = env.resolveType(n)
		}
		if t == specIntType {
			env.vars[parts[0]] = intVal(x.em.Fresh("lv."+parts[0], "Int"))
		} else {
			env.vars[parts[0]] = fr.freshVal("lv."+parts[0], t)
		}
	}
	// uses: r = pkg.Func(args)
	for _, u := range l.Uses {
		_ = u
	}
	// assumptions over the variables come first (they may be needed for the preconditions of
	// the uses); those that mention results of uses are taken after the uses
	var later []*Clause
	for _, a := range l.Assumes {
		func() {
			defer func() {
				if r := recover(); r != nil {
					if _, ok := r.(specFail); !ok {
						panic(r)
					}
					later = append(later, a)
				}
			}()
			x.em.Assert(fr.evalBool(a.Expr, env))
		}()
	}
	for _, u := range l.UseStmts {
		fr.lemmaUse(u, env)
	}
	for _, a := range later {
		x.em.Assert(fr.evalBool(a.Expr, env))
	}
	for i, s := range l.Shows {
		fr.oblige("lemma", l.Name+":"+s.label(i), fr.evalBool(s.Expr, env), s.Src)
	}
	x.obls = append(x.obls, &Obligation{Name: key + "#cover:assumptions", Kind: "cover", Fn: key, Props: l.Props,
		Pos: x.em.Mark(), Goal: "true", Expect: "sat", em: x.em})
	res.Obls = x.obls
	for t := range x.trusted {
		res.Trusted = append(res.Trusted, t)
	}
	sort.Strings(res.Trusted)
	res.Lines = len(x.em.Lines)
	return
}

// lemmaUse instantiates a function contract inside a lemma: "r = Func(args...)".
func (fr *Frame) lemmaUse(stmt string, env *SpecEnv) {
	x := fr.x
	parts := strings.SplitN(stmt, "=", 2)
	if len(parts) != 2 {
		sfail("uses: expected r = Func(args): %s", stmt)
	}
	rname := strings.TrimSpace(parts[0])
	n, err := parseSpec(strings.TrimSpace(parts[1]))
	if err != nil || n.Op != "call" {
		sfail("uses: bad call %s", stmt)
	}
	var key string
	fnNode := n.Args[0]
	switch fnNode.Op {
	case "id":
		key = env.lemma.Pkg + "." + fnNode.Name
	case ".":
		// Type.Method or pkg.Func
		key = env.lemma.Pkg + "." + fnNode.String()
		if x.w.contracts[key] == nil {
			if p := env.importedPkg(fnNode.Args[0].String()); p != nil {
				key = shortPkg(p.Path()) + "." + fnNode.Name
			}
		}
	}
	c := x.w.contracts[key]
	fn := x.w.funcs[key]
	if c == nil || fn == nil {
		sfail("uses: no contract/function %s", key)
	}
	if !c.Assumed {
		x.usedContracts[key] = true
	}
	cenv := &SpecEnv{fr: fr, vars: map[string]*SVal{}, heap: fr.cur, old: fr.cur, pkg: fn.Pkg, contract: c}
	args := n.Args[1:]
	if len(args) != len(fn.Params) {
		sfail("uses: %s expects %d arguments (receiver first)", key, len(fn.Params))
	}
	for i, p := range fn.Params {
		v := env.force(env.eval(args[i]))
		if v.T == specIntType {
			v = leaf(p.Type(), v.Term)
		}
		cenv.vars[p.Name()] = v
	}
	for i, cl := range c.Requires {
		fr.oblige("lemma-pre", env.lemma.Name+":"+fn.Name()+":"+cl.label(i), fr.evalBool(cl.Expr, cenv), cl.Src)
	}
	var rt types.Type = fn.Signature.Results()
	if fn.Signature.Results().Len() == 1 {
		rt = fn.Signature.Results().At(0).Type()
	}
	rv := fr.freshVal("use."+rname, rt)
	bindResults(cenv, fn, rv)
	for _, cl := range c.Ensures {
		x.em.Assert(fr.evalBool(cl.Expr, cenv))
	}
	env.vars[rname] = rv
	if rv.F != nil && kindOf(rv.T) == KTuple {
		rs := fn.Signature.Results()
		for i := 0; i < rs.Len(); i++ {
			env.vars[fmt.Sprintf("%s_%d", rname, i)] = rv.F[i]
			if nm := rs.At(i).Name(); nm != "" && nm != "_" {
				env.vars[rname+"_"+nm] = rv.F[i]
			}
		}
	}
}
