package main

import (
	"fmt"
	"math/big"
	"regexp"
	"strings"
)

// sum(k, lo, hi, term): an uninterpreted prefix-sum function.
//
// The function symbol is determined by the text of the term with (a) the bound variable and
// (b) the (backing array, offset) of every slice indexed by the bound variable abstracted into
// parameters. The same spec sum therefore denotes the same SMT function whether it is
// evaluated for a ground slice (inside a loop invariant) or for a slice that depends on an
// outer bound variable (a nested sum), with different actual parameters.
//
// Axioms: S(p.., n) = 0 for n <= lo; monotone in n when the term is of an unsigned type;
// ground unfoldings S(hi) = S(hi-1) + T(hi-1) and S(hi+1) = S(hi) + T(hi) at every
// evaluated upper bound hi.

type sumCtx struct {
	ph     string
	depth  int
	params []string // actual terms
	qstart int      // quantifier counter when the sum was opened
}

func (c *sumCtx) param(actual string) string {
	for i, a := range c.params {
		if a == actual {
			return fmt.Sprintf("$P%d_%d$", c.depth, i)
		}
	}
	c.params = append(c.params, actual)
	return fmt.Sprintf("$P%d_%d$", c.depth, len(c.params)-1)
}

var qvarRe = regexp.MustCompile(`!q(\d+)`)

// unlift substitutes this level's parameter placeholders in t by their actual terms.
func (c *sumCtx) unlift(t string) string {
	for i := len(c.params) - 1; i >= 0; i-- {
		t = strings.ReplaceAll(t, fmt.Sprintf("$P%d_%d$", c.depth, i), c.params[i])
	}
	return t
}

// lift replaces a scalar value that does not depend on the sum's bound variable by a formal
// parameter of the sum function (lambda lifting), so that the function symbol does not depend
// on how the free value happens to be written.
func (c *sumCtx) lift(e *SpecEnv, v *SVal) *SVal {
	if v == nil || v.LV || v.F != nil || v.Term == "" || v.Loc != nil || v.Fn != nil {
		return v
	}
	switch kindOf(v.T) {
	case KInt, KSpecInt, KPtr, KMap, KIface:
	default:
		return v
	}
	t := v.Term
	if _, lit := isIntLit(t); lit {
		return v
	}
	if strings.Contains(t, c.ph) || strings.Contains(t, fmt.Sprintf("$P%d_", c.depth)) {
		return v
	}
	// variables bound by a quantifier opened inside the sum body cannot be lifted out of it
	for _, m := range qvarRe.FindAllStringSubmatch(t, -1) {
		var n int
		fmt.Sscan(m[1], &n)
		if n > c.qstart {
			return v
		}
	}
	nv := *v
	nv.Term = c.param(t)
	return &nv
}

func hasBound(s string) bool {
	return strings.Contains(s, "$SUMVAR") || strings.Contains(s, "$P") || strings.Contains(s, "!q")
}

func (e *SpecEnv) sum(args []*Node) *SVal {
	x := e.fr.x
	if len(args) != 4 || args[0].Op != "id" {
		sfail("sum(k, lo, hi, term)")
	}
	lo, hi := e.intTerm(args[1]), e.intTerm(args[2])
	ctx := &sumCtx{ph: fmt.Sprintf("$SUMVAR%d$", e.sumDepth), depth: e.sumDepth, qstart: x.nFrames}
	n := e.with(args[0].Name, intVal(ctx.ph))
	n.sumCtx = ctx
	n.sumDepth = e.sumDepth + 1
	tv := n.force(n.eval(args[3]))
	if k := kindOf(tv.T); k != KInt && k != KSpecInt {
		sfail("sum term must be an integer")
	}
	nonnegByNode := n.nonNegNode(args[3])
	// canonical form: the bound variable is $V$, parameters are $A0$, $A1$, ... in order of
	// first occurrence in the body; parameters that do not occur are dropped. The function
	// symbol then depends only on the shape of the term, not on nesting depth or on the order
	// in which sub-expressions were evaluated.
	pre := regexp.MustCompile(fmt.Sprintf(`\$P%d_(\d+)\$`, ctx.depth))
	var actuals []string
	order := map[string]int{}
	body := pre.ReplaceAllStringFunc(tv.Term, func(m string) string {
		j, ok := order[m]
		if !ok {
			var idx int
			fmt.Sscanf(m, fmt.Sprintf("$P%d_%%d$", ctx.depth), &idx)
			j = len(actuals)
			order[m] = j
			actuals = append(actuals, ctx.params[idx])
		}
		return fmt.Sprintf("$A%d$", j)
	})
	body = strings.ReplaceAll(body, ctx.ph, "$V$")
	ctx.params = actuals
	np := len(actuals)
	key := lo + "|" + body
	s, ok := x.sumFns[key]
	nonneg := false
	if kindOf(tv.T) == KInt {
		if _, signed := intInfo(tv.T); !signed {
			nonneg = true
		}
	}
	if !nonneg {
		nonneg = nonnegByNode
	}
	// formal parameter names
	var formals, fdecl []string
	for i := 0; i < np; i++ {
		f := fmt.Sprintf("sp%d", i)
		formals = append(formals, f)
		fdecl = append(fdecl, "("+f+" Int)")
	}
	subst := func(t string, actuals []string, v string) string {
		t = strings.ReplaceAll(t, "$V$", v)
		for i := np - 1; i >= 0; i-- {
			t = strings.ReplaceAll(t, fmt.Sprintf("$A%d$", i), actuals[i])
		}
		return t
	}
	if !ok {
		sorts := make([]string, np+1)
		for i := range sorts {
			sorts[i] = "Int"
		}
		s = x.em.Func(fmt.Sprintf("sum!%d", len(x.sumFns)), sorts, "Int")
		x.sumFns[key] = s
		if !hasBound(lo) {
			fa := strings.Join(append(append([]string{}, formals...), "n"), " ")
			x.em.Assert("(forall (" + strings.Join(append(append([]string{}, fdecl...), "(n Int)"), " ") + ") (! (=> (<= n " + lo + ") (= (" + s + " " + fa + ") 0)) :pattern ((" + s + " " + fa + "))))")
			if nonneg {
				pa := strings.Join(append(append([]string{}, formals...), "a"), " ")
				pb := strings.Join(append(append([]string{}, formals...), "b"), " ")
				x.em.Assert("(forall (" + strings.Join(append(append([]string{}, fdecl...), "(a Int)", "(b Int)"), " ") + ") (! (=> (<= a b) (<= (" + s + " " + pa + ") (" + s + " " + pb + "))) :pattern ((" + s + " " + pa + ") (" + s + " " + pb + "))))")
			}
		}
	}
	app := func(v string) string { return sApp(s, append(append([]string{}, ctx.params...), v)...) }
	ground := !hasBound(lo) && !hasBound(hi)
	for _, a := range ctx.params {
		if hasBound(a) {
			ground = false
		}
	}
	inst := "unf|" + app(hi)
	if ground && !x.sumInst[inst] {
		x.sumInst[inst] = true
		hm1 := sSub(hi, "1")
		if v, ok := isIntLit(hi); ok {
			hm1 = sBig(new(big.Int).Sub(v, big.NewInt(1)))
		}
		x.em.Assert(sImp(sLt(lo, hi), sEq(app(hi), sAdd(app(hm1), subst(body, ctx.params, hm1)))))
		if nonneg {
			x.em.Assert(sImp(sLt(lo, hi), sLe("0", subst(body, ctx.params, hm1))))
		}
		if _, lit := isIntLit(hi); !lit {
			hp1 := sAdd(hi, "1")
			x.sumInst["unf|"+app(hp1)] = true
			x.em.Assert(sImp(sLe(lo, hi), sEq(app(hp1), sAdd(app(hi), subst(body, ctx.params, hi)))))
			if nonneg {
				x.em.Assert(sImp(sLe(lo, hi), sLe("0", subst(body, ctx.params, hi))))
			}
		}
	}
	return intVal(app(hi))
}

// nonNegNode: syntactic check that a spec integer expression is non-negative in every state
// (literals, len/cap, values of unsigned Go types, sums/products/quotients of such).
func (e *SpecEnv) nonNegNode(n *Node) (ok bool) {
	defer func() {
		if r := recover(); r != nil {
			if _, isSpec := r.(specFail); isSpec {
				ok = false
				return
			}
			panic(r)
		}
	}()
	switch n.Op {
	case "int":
		return true
	case "+", "*", "/", "%", "<<", ">>":
		return e.nonNegNode(n.Args[0]) && e.nonNegNode(n.Args[1])
	case "call":
		if n.Args[0].Op == "id" {
			name := n.Args[0].Name
			switch name {
			case "len", "cap":
				return true
			case "min":
				return e.nonNegNode(n.Args[1]) && e.nonNegNode(n.Args[2])
			case "max":
				return e.nonNegNode(n.Args[1]) || e.nonNegNode(n.Args[2])
			case "ite":
				return len(n.Args) == 4 && e.nonNegNode(n.Args[2]) && e.nonNegNode(n.Args[3])
			case "sum":
				if len(n.Args) == 5 {
					return e.with(n.Args[1].Name, intVal("0")).nonNegNode(n.Args[4])
				}
			}
			if s := e.findSpec(name); s != nil && s.Opaque {
				return s.NonNeg
			}
			if s := e.findSpec(name); s != nil && len(s.Params) == len(n.Args)-1 && e.depth < 20 {
				m := *e
				m.vars = map[string]*SVal{}
				for k, v := range e.vars {
					m.vars[k] = v
				}
				for i, p := range s.Params {
					m.vars[p] = e.eval(n.Args[i+1])
				}
				m.depth = e.depth + 1
				if s.Pkg != "" {
					m.specPkg = s.Pkg
				}
				return m.nonNegNode(s.Body)
			}
		}
	}
	v := e.eval(n)
	if kindOf(v.T) == KInt {
		_, signed := intInfo(v.T)
		return !signed
	}
	return false
}
