package main

import (
	"fmt"
	"strings"
)

// Spec expression AST and parser. Go expression syntax plus ==> and <==>.

type Node struct {
	Op   string // "id" "int" "str" "." "[]" "[:]" "call" or an operator
	Name string
	Args []*Node
	Pos  int
}

func (n *Node) String() string {
	switch n.Op {
	case "id", "int":
		return n.Name
	case "str":
		return fmt.Sprintf("%q", n.Name)
	case ".":
		return n.Args[0].String() + "." + n.Name
	case "[]":
		return n.Args[0].String() + "[" + n.Args[1].String() + "]"
	case "[:]":
		s := n.Args[0].String() + "["
		if n.Args[1] != nil {
			s += n.Args[1].String()
		}
		s += ":"
		if n.Args[2] != nil {
			s += n.Args[2].String()
		}
		return s + "]"
	case "call":
		var a []string
		for _, x := range n.Args[1:] {
			a = append(a, x.String())
		}
		return n.Args[0].String() + "(" + strings.Join(a, ", ") + ")"
	case "neg":
		return "-" + n.Args[0].String()
	case "!":
		return "!" + n.Args[0].String()
	}
	return "(" + n.Args[0].String() + " " + n.Op + " " + n.Args[1].String() + ")"
}

type tok struct {
	k   string // "id" "int" "str" "op" "eof"
	s   string
	pos int
}

func lexSpec(src string) ([]tok, error) {
	var out []tok
	i := 0
	ops := []string{"<==>", "==>", "&&", "||", "==", "!=", "<=", ">=", "<<", ">>", "&^", "+", "-", "*", "/", "%", "<", ">", "!", "(", ")", "[", "]", ".", ",", ":", "&", "|", "^"}
	for i < len(src) {
		c := src[i]
		switch {
		case c == ' ' || c == '\t' || c == '\n':
			i++
		case c >= '0' && c <= '9':
			j := i
			for j < len(src) && (src[j] >= '0' && src[j] <= '9' || src[j] == 'x' || src[j] == 'X' || src[j] == '_' || (src[j] >= 'a' && src[j] <= 'f') || (src[j] >= 'A' && src[j] <= 'F')) {
				j++
			}
			out = append(out, tok{"int", strings.ReplaceAll(src[i:j], "_", ""), i})
			i = j
		case c == '_' || c >= 'a' && c <= 'z' || c >= 'A' && c <= 'Z' || c == '$' || c == '#':
			j := i + 1
			for j < len(src) && (src[j] == '_' || src[j] == '$' || src[j] >= 'a' && src[j] <= 'z' || src[j] >= 'A' && src[j] <= 'Z' || src[j] >= '0' && src[j] <= '9') {
				j++
			}
			out = append(out, tok{"id", src[i:j], i})
			i = j
		case c == '"':
			j := i + 1
			for j < len(src) && src[j] != '"' {
				if src[j] == '\\' {
					j++
				}
				j++
			}
			if j >= len(src) {
				return nil, fmt.Errorf("unterminated string at %d", i)
			}
			s := src[i+1 : j]
			s = strings.NewReplacer(`\"`, `"`, `\\`, `\`, `\n`, "\n").Replace(s)
			out = append(out, tok{"str", s, i})
			i = j + 1
		default:
			found := false
			for _, op := range ops {
				if strings.HasPrefix(src[i:], op) {
					out = append(out, tok{"op", op, i})
					i += len(op)
					found = true
					break
				}
			}
			if !found {
				return nil, fmt.Errorf("bad character %q at %d in %q", c, i, src)
			}
		}
	}
	out = append(out, tok{"eof", "", len(src)})
	return out, nil
}

type specParser struct {
	toks []tok
	p    int
	src  string
}

func parseSpec(src string) (n *Node, err error) {
	toks, err := lexSpec(src)
	if err != nil {
		return nil, err
	}
	ps := &specParser{toks: toks, src: src}
	defer func() {
		if r := recover(); r != nil {
			if e, ok := r.(specErr); ok {
				err = fmt.Errorf("spec parse error: %s in %q", string(e), src)
				return
			}
			panic(r)
		}
	}()
	n = ps.expr()
	if ps.peek().k != "eof" {
		ps.fail("trailing tokens at %d", ps.peek().pos)
	}
	return n, nil
}

type specErr string

func (ps *specParser) fail(f string, a ...interface{}) { panic(specErr(fmt.Sprintf(f, a...))) }
func (ps *specParser) peek() tok                      { return ps.toks[ps.p] }
func (ps *specParser) next() tok                      { t := ps.toks[ps.p]; ps.p++; return t }
func (ps *specParser) isOp(s string) bool {
	t := ps.peek()
	return t.k == "op" && t.s == s
}
func (ps *specParser) accept(s string) bool {
	if ps.isOp(s) {
		ps.p++
		return true
	}
	return false
}
func (ps *specParser) expect(s string) {
	if !ps.accept(s) {
		ps.fail("expected %q at %d, got %q", s, ps.peek().pos, ps.peek().s)
	}
}

func (ps *specParser) expr() *Node { return ps.iff() }

func (ps *specParser) iff() *Node {
	l := ps.imp()
	for ps.isOp("<==>") {
		ps.next()
		r := ps.imp()
		l = &Node{Op: "<==>", Args: []*Node{l, r}}
	}
	return l
}

func (ps *specParser) imp() *Node {
	l := ps.or()
	if ps.isOp("==>") {
		ps.next()
		r := ps.imp()
		return &Node{Op: "==>", Args: []*Node{l, r}}
	}
	return l
}

func (ps *specParser) or() *Node {
	l := ps.and()
	for ps.isOp("||") {
		ps.next()
		r := ps.and()
		l = &Node{Op: "||", Args: []*Node{l, r}}
	}
	return l
}

func (ps *specParser) and() *Node {
	l := ps.cmp()
	for ps.isOp("&&") {
		ps.next()
		r := ps.cmp()
		l = &Node{Op: "&&", Args: []*Node{l, r}}
	}
	return l
}

func (ps *specParser) cmp() *Node {
	l := ps.add()
	for _, op := range []string{"==", "!=", "<=", ">=", "<", ">"} {
		if ps.isOp(op) {
			ps.next()
			r := ps.add()
			n := &Node{Op: op, Args: []*Node{l, r}}
			// chained comparisons a <= b < c
			for _, op2 := range []string{"<=", "<", ">=", ">"} {
				if ps.isOp(op2) {
					ps.next()
					r2 := ps.add()
					n = &Node{Op: "&&", Args: []*Node{n, {Op: op2, Args: []*Node{r, r2}}}}
					r = r2
				}
			}
			return n
		}
	}
	return l
}

func (ps *specParser) add() *Node {
	l := ps.mul()
	for {
		t := ps.peek()
		if t.k == "op" && (t.s == "+" || t.s == "-" || t.s == "|" || t.s == "^") {
			ps.next()
			r := ps.mul()
			l = &Node{Op: t.s, Args: []*Node{l, r}}
			continue
		}
		return l
	}
}

func (ps *specParser) mul() *Node {
	l := ps.unary()
	for {
		t := ps.peek()
		if t.k == "op" && (t.s == "*" || t.s == "/" || t.s == "%" || t.s == "<<" || t.s == ">>" || t.s == "&") {
			ps.next()
			r := ps.unary()
			l = &Node{Op: t.s, Args: []*Node{l, r}}
			continue
		}
		return l
	}
}

func (ps *specParser) unary() *Node {
	if ps.accept("!") {
		return &Node{Op: "!", Args: []*Node{ps.unary()}}
	}
	if ps.accept("-") {
		return &Node{Op: "neg", Args: []*Node{ps.unary()}}
	}
	return ps.postfix()
}

func (ps *specParser) postfix() *Node {
	n := ps.primary()
	for {
		switch {
		case ps.accept("."):
			t := ps.next()
			if t.k != "id" {
				ps.fail("expected field name at %d", t.pos)
			}
			n = &Node{Op: ".", Name: t.s, Args: []*Node{n}}
		case ps.accept("["):
			var lo, hi *Node
			if !ps.isOp(":") {
				lo = ps.expr()
			}
			if ps.accept(":") {
				if !ps.isOp("]") {
					hi = ps.expr()
				}
				ps.expect("]")
				n = &Node{Op: "[:]", Args: []*Node{n, lo, hi}}
			} else {
				ps.expect("]")
				n = &Node{Op: "[]", Args: []*Node{n, lo}}
			}
		case ps.accept("("):
			args := []*Node{n}
			for !ps.isOp(")") {
				args = append(args, ps.expr())
				if !ps.accept(",") {
					break
				}
			}
			ps.expect(")")
			n = &Node{Op: "call", Args: args}
		default:
			return n
		}
	}
}

func (ps *specParser) primary() *Node {
	t := ps.next()
	switch t.k {
	case "id":
		return &Node{Op: "id", Name: t.s, Pos: t.pos}
	case "int":
		return &Node{Op: "int", Name: t.s, Pos: t.pos}
	case "str":
		return &Node{Op: "str", Name: t.s, Pos: t.pos}
	case "op":
		if t.s == "(" {
			n := ps.expr()
			ps.expect(")")
			return n
		}
	}
	ps.fail("unexpected token %q at %d", t.s, t.pos)
	return nil
}
